#!/usr/bin/env python3
"""Fail-closed translator for mosaik/in_or_out_set.py -> Coq (Gen/InOrOutSet.v).

Translates the methods of class OutSet (__sub__, __rsub__, __and__, __rand__, __or__, __ror__, __contains__, __eq__) and
the function parse_set_triple.  Values of type InOrOutSet are `ioset` (Fin l = a frozenset, Cof l = OutSet(l)); frozensets
are duplicate-tolerant lists with the operations of Static/Attrs.v (lmem, ldiff, linter, lunion, leq).  Python's binary
operator dispatch between frozenset and OutSet (frozenset.__sub__ returns NotImplemented for an OutSet, so the reflected
method runs) is emitted as fixed text (py_sub, py_and, py_or, py_eq) on top of the generated methods; Static/SetsTie.v proves them equal to the specification.
Anything else in the source makes the translator exit with status 2 (a broken tie).
Usage: py2coq_sets.py <repo> <outdir>
"""
import ast, sys, os


class Unsupported(Exception):
    pass


def bail(node, why=''):
    raise Unsupported(f"line {getattr(node, 'lineno', '?')}: {type(node).__name__} {why}")


FS, OS, IO, BOOL, OPT_IO, ELEM = 'frozenset', 'OutSet', 'InOrOutSet', 'bool', 'Optional[InOrOutSet]', 'elem'
OPS = {ast.Sub: 'sub', ast.BitAnd: 'and', ast.BitOr: 'or'}
LOPS = {'sub': 'ldiff', 'and': 'linter', 'or': 'lunion'}


class M:
    """one method / function body"""
    def __init__(self, env): self.env = dict(env)

    def ty(self, e):
        if isinstance(e, ast.Name):
            if e.id in self.env: return self.env[e.id]
            bail(e, 'unknown name ' + e.id)
        if isinstance(e, ast.Attribute):
            if e.attr == '_set' and self.ty(e.value) == OS: return FS
            bail(e, 'attribute')
        if isinstance(e, ast.BinOp) and type(e.op) in OPS:
            l, r = self.ty(e.left), self.ty(e.right)
            if l == FS and r == FS: return FS
            if {l, r} <= {FS, OS, IO}: return IO
            bail(e, 'operand types')
        if isinstance(e, ast.Call) and isinstance(e.func, ast.Name):
            if e.func.id == 'OutSet' and len(e.args) == 1 and self.ty(e.args[0]) == FS: return OS
            if e.func.id == 'frozenset' and not e.args: return FS
            bail(e, 'call')
        if isinstance(e, ast.Compare): return BOOL
        if isinstance(e, ast.UnaryOp) and isinstance(e.op, ast.Not): return BOOL
        if isinstance(e, ast.Constant) and isinstance(e.value, bool): return BOOL
        bail(e, 'expression')

    def as_io(self, e):
        """the expression as an ioset"""
        t = self.ty(e)
        if t == FS: return f'(Fin {self.ex(e)})'
        if t == OS: return f'(Cof {self.os_set(e)})'
        if t == IO: return self.ex(e)
        bail(e, 'not a set')

    def os_set(self, e):
        """the _set of an OutSet-typed expression"""
        if isinstance(e, ast.Name): return e.id            # OutSet variables are bound to their _set
        if isinstance(e, ast.Call): return self.ex(e.args[0])
        bail(e, 'OutSet expression')

    def ex(self, e):
        t = self.ty(e)
        if isinstance(e, ast.Name): return e.id
        if isinstance(e, ast.Attribute): return self.os_set(e.value)
        if isinstance(e, ast.BinOp):
            op = OPS[type(e.op)]
            if t == FS: return f'({LOPS[op]} {self.ex(e.left)} {self.ex(e.right)})'
            return f'(py_{op} {self.as_io(e.left)} {self.as_io(e.right)})'
        if isinstance(e, ast.Call):
            if e.func.id == 'frozenset': return '[]'
            return self.os_set(e)
        if isinstance(e, ast.Constant): return 'true' if e.value else 'false'
        if isinstance(e, ast.UnaryOp): return f'(negb {self.ex(e.operand)})'
        if isinstance(e, ast.Compare):
            if len(e.ops) != 1: bail(e, 'chained comparison')
            l, r = e.left, e.comparators[0]
            if isinstance(e.ops[0], ast.Eq):
                if self.ty(l) == FS and self.ty(r) == FS: return f'(leq {self.ex(l)} {self.ex(r)})'
                return f'(py_eq {self.as_io(l)} {self.as_io(r)})'
            if isinstance(e.ops[0], ast.NotIn) and self.ty(l) == ELEM and self.ty(r) == FS:
                return f'(negb (lmem {self.ex(l)} {self.ex(r)}))'
            if isinstance(e.ops[0], ast.In) and self.ty(l) == ELEM and self.ty(r) == FS:
                return f'(lmem {self.ex(l)} {self.ex(r)})'
            bail(e, 'comparison')
        bail(e, 'expression')


def is_isinstance_outset(test):
    return (isinstance(test, ast.Call) and isinstance(test.func, ast.Name) and test.func.id == 'isinstance' and len(test.args) == 2
            and isinstance(test.args[0], ast.Name) and isinstance(test.args[1], ast.Name) and test.args[1].id == 'OutSet')


def method(cls_methods, name, f):
    """OutSet methods: self is bound to its _set (a list); the other operand by the annotation"""
    args = f.args.args
    if len(args) != 2 or args[0].arg != 'self': bail(f, 'signature')
    other = args[1].arg
    ann = ast.unparse(args[1].annotation) if args[1].annotation else None
    body = [s for s in f.body if not (isinstance(s, ast.Expr) and isinstance(s.value, ast.Constant))]
    if name == '__contains__':
        m = M({'self': OS, other: ELEM})
        if len(body) != 1 or not isinstance(body[0], ast.Return): bail(f, '__contains__ body')
        return f"Definition OutSet___contains__ (self : list nat) ({other} : nat) : bool :=\n  {m.ex(body[0].value)}.\n"
    oty = {'InOrOutSet[E]': IO, 'FrozenSet[E]': FS, 'Any': IO}.get(ann)
    if oty is None: bail(f, f'annotation {ann}')
    def ret(m, s, want_io):
        if not isinstance(s, ast.Return): bail(s, 'expected return')
        v = s.value
        if isinstance(v, ast.Constant) and isinstance(v.value, bool): return 'true' if v.value else 'false'
        if m.ty(v) == BOOL: return m.ex(v)
        return m.as_io(v) if want_io else m.ex(v)
    want_io = name != '__eq__'
    rty = 'ioset' if want_io else 'bool'
    if oty == FS:
        m = M({'self': OS, other: FS})
        if len(body) != 1: bail(f, 'body')
        return f"Definition OutSet_{name} (self : list nat) ({other} : list nat) : {rty} :=\n  {ret(m, body[0], want_io)}.\n"
    # other : InOrOutSet - the body must dispatch with isinstance(other, OutSet)
    if len(body) == 1 and isinstance(body[0], ast.If) and is_isinstance_outset(body[0].test) and body[0].test.args[0].id == other:
        st = body[0]
        if len(st.body) != 1 or len(st.orelse) != 1: bail(f, 'branches')
        then = ret(M({'self': OS, other: OS}), st.body[0], want_io)
        els = ret(M({'self': OS, other: FS}), st.orelse[0], want_io)
    elif (len(body) == 2 and isinstance(body[0], ast.If) and isinstance(body[0].test, ast.UnaryOp) and isinstance(body[0].test.op, ast.Not)
          and is_isinstance_outset(body[0].test.operand) and not body[0].orelse and len(body[0].body) == 1):
        # if not isinstance(other, OutSet): return X ; return Y
        els = ret(M({'self': OS, other: FS}), body[0].body[0], want_io)
        then = ret(M({'self': OS, other: OS}), body[1], want_io)
    else:
        bail(f, 'expected an isinstance(other, OutSet) dispatch')
    return (f"Definition OutSet_{name} (self : list nat) ({other}_ : ioset) : {rty} :=\n"
            f"  match {other}_ with Cof {other} => {then} | Fin {other} => {els} end.\n")


def triple(f):
    """parse_set_triple: Optional arguments, three ways to fail"""
    names = [a.arg for a in f.args.args][:3]
    if names != ['union', 'part_a', 'part_b']: bail(f, 'parameters')
    body = [s for s in f.body if not (isinstance(s, ast.Expr) and isinstance(s.value, ast.Constant))]
    # missing_value_error = ValueError(...)
    if not (isinstance(body[0], ast.Assign) and isinstance(body[0].targets[0], ast.Name) and isinstance(body[0].value, ast.Call)
            and getattr(body[0].value.func, 'id', None) == 'ValueError'): bail(body[0], 'expected the missing-value error')
    missing = body[0].targets[0].id
    known = {n: False for n in names}       # is the Optional known to be a value (Some) at this point

    def raise_kind(s):
        if not isinstance(s, ast.Raise): bail(s, 'expected raise')
        if isinstance(s.exc, ast.Name) and s.exc.id == missing: return 'PMissing'
        if isinstance(s.exc, ast.Call) and getattr(s.exc.func, 'id', None) == 'ValueError':
            txt = ast.unparse(s.exc)
            if 'not disjoint' in txt: return 'PNotDisjoint'
            if 'must be subsets' in txt: return 'PNotUnion'
        bail(s, 'unknown error')

    def is_none(test, want_not=False):
        if isinstance(test, ast.Compare) and len(test.ops) == 1 and isinstance(test.comparators[0], ast.Constant) and test.comparators[0].value is None \
                and isinstance(test.left, ast.Name):
            if isinstance(test.ops[0], ast.Is): return test.left.id, True
            if isinstance(test.ops[0], ast.IsNot): return test.left.id, False
        return None, None

    def expr(e, env):
        m = M(env); return m.as_io(e) if m.ty(e) != BOOL else m.ex(e)

    def block(stmts, env):
        if not stmts: bail(f, 'fell off the end')
        s, rest = stmts[0], stmts[1:]
        if isinstance(s, ast.If):
            v, isnone = is_none(s.test)
            if v is not None and isnone and not s.orelse:
                # if v is None: <compute v or raise>   -- afterwards v is a value
                inner = compute(s.body, env, v)
                env2 = dict(env); env2[v] = IO
                return f"match (match {v} with Some {v}0 => Some {v}0 | None => {inner} end) with\n  | None => PMissing\n  | Some {v} =>\n  {block(rest, env2)}\n  end"
            # if not <bool>: raise
            if isinstance(s.test, ast.UnaryOp) and isinstance(s.test.op, ast.Not) and not s.orelse and len(s.body) == 1:
                return f"if negb {expr(s.test.operand, env)} then {raise_kind(s.body[0])} else\n  {block(rest, env)}"
            bail(s, 'if shape')
        if isinstance(s, ast.Return):
            if not (isinstance(s.value, ast.Tuple) and len(s.value.elts) == 2): bail(s, 'return value')
            return f"POk ({expr(s.value.elts[0], env)}, {expr(s.value.elts[1], env)})"
        bail(s, 'statement')

    def compute(stmts, env, v):
        """body of `if v is None:` -> option ioset (None = the missing-value error)"""
        if len(stmts) == 1 and isinstance(stmts[0], ast.Assign) and getattr(stmts[0].targets[0], 'id', None) == v:
            return f"Some {expr(stmts[0].value, env)}"
        if len(stmts) == 1 and isinstance(stmts[0], ast.If):
            s = stmts[0]
            # if x is not None [and y is not None]: v = e  else: raise missing
            conds = s.test.values if isinstance(s.test, ast.BoolOp) and isinstance(s.test.op, ast.And) else [s.test]
            vs = []
            for c in conds:
                n, isnone = is_none(c)
                if n is None or isnone: bail(c, 'expected "x is not None"')
                vs.append(n)
            if len(s.orelse) != 1 or raise_kind(s.orelse[0]) != 'PMissing': bail(s, 'else branch')
            env2 = dict(env)
            for n in vs: env2[n] = IO
            inner = compute(s.body, env2, v)
            pats = ', '.join(f'Some {n}' if env.get(n) != IO else '_' for n in vs)
            scrut = ', '.join(n if env.get(n) != IO else 'tt' for n in vs)
            return f"match {scrut} with {pats} => {inner} | {', '.join('_' for _ in vs)} => None end"
        bail(stmts[0], 'computation of a missing set')

    env = {n: OPT_IO for n in names}
    body_t = block(body[1:], env)
    return ("Definition parse_set_triple (union part_a part_b : option ioset) : pres (ioset * ioset) :=\n  " + body_t + ".\n")


def translate(src):
    mod = ast.parse(src)
    cls = next((n for n in mod.body if isinstance(n, ast.ClassDef) and n.name == 'OutSet'), None)
    if cls is None: raise Unsupported('class OutSet not found')
    out = ["(* generated by harness/py2coq_sets.py from mosaik/in_or_out_set.py -- do not edit; regenerated on every run *)",
           "From Coq Require Import List Bool Arith.", "Import ListNotations.", "From MV Require Import Static.Attrs.", ""]
    wanted = ['__sub__', '__rsub__', '__and__', '__rand__', '__or__', '__ror__', '__contains__', '__eq__']
    methods = {n.name: n for n in cls.body if isinstance(n, ast.FunctionDef)}
    for extra in set(methods) - set(wanted) - {'__init__', '__str__'}:
        raise Unsupported('unexpected method ' + extra)
    # __init__ must just store frozenset(elems)
    init = methods.get('__init__')
    if init is None or ast.unparse(init.body[-1]).replace(' ', '') != 'self._set=frozenset(elems)': raise Unsupported('OutSet.__init__')
    for name in wanted:
        if name not in methods: raise Unsupported('missing method ' + name)
    # the dispatch prelude is instantiated with the generated methods: binary methods first
    for name in ['__sub__', '__rsub__', '__and__', '__rand__', '__or__', '__ror__', '__eq__']:
        if name in ('__sub__', '__and__', '__or__', '__eq__'):
            out.append('(* uses py_sub / py_and / py_or / py_eq only on frozensets or through the prelude below *)') if False else None
    pre, post = [], []
    for name in wanted:
        pre.append(method(methods, name, methods[name]))
    fn = next((n for n in mod.body if isinstance(n, ast.FunctionDef) and n.name == 'parse_set_triple'), None)
    if fn is None: raise Unsupported('parse_set_triple not found')
    return '\n'.join(x for x in out if x is not None) + '\n' + PRELUDE_NOTE + '\n'.join(pre) + '\n' + DISPATCH + '\n' + triple(fn)


PRELUDE_NOTE = "(* OutSet methods: self and an OutSet operand are given by their _set *)\n"
DISPATCH = """(* Python's dispatch for a binary operator between two InOrOutSets: an OutSet on the left runs its own method; a frozenset
   on the left with an OutSet on the right falls through to the reflected method; two frozensets use the frozenset operation *)
Definition py_sub (a b : ioset) : ioset :=
  match a with Cof s => OutSet___sub__ s b | Fin x => match b with Fin y => Fin (ldiff x y) | Cof s => OutSet___rsub__ s x end end.
Definition py_and (a b : ioset) : ioset :=
  match a with Cof s => OutSet___and__ s b | Fin x => match b with Fin y => Fin (linter x y) | Cof s => OutSet___rand__ s x end end.
Definition py_or (a b : ioset) : ioset :=
  match a with Cof s => OutSet___or__ s b | Fin x => match b with Fin y => Fin (lunion x y) | Cof s => OutSet___ror__ s x end end.
Definition py_eq (a b : ioset) : bool :=
  match a with Cof s => OutSet___eq__ s b | Fin x => match b with Fin y => leq x y | Cof s => OutSet___eq__ s (Fin x) end end.
"""


def main():
    repo, outdir = sys.argv[1], sys.argv[2]
    os.makedirs(outdir, exist_ok=True)
    try:
        out = translate(open(os.path.join(repo, 'mosaik', 'in_or_out_set.py')).read())
    except Unsupported as e:
        print('py2coq_sets: unsupported:', e, file=sys.stderr)
        sys.exit(2)
    path = os.path.join(outdir, 'InOrOutSet.v')
    if not os.path.exists(path) or open(path).read() != out:
        open(path, 'w').write(out)


if __name__ == '__main__':
    main()
