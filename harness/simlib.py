"""Gated in-process simulators, schedule controller, scenario builder and trace recorder (DESIGN.md 2.3).

A *case* is a JSON-able dict:
  n, types[i] in {time-based,event-based,hybrid}, grp[i] = group path as list of ints ([] = root),
  edges: list of dicts {a, b, sa, da, kind: p|ts|w, shift, init: bool, async: bool},
  until, beh[i] (behaviour script), init: [[i, t], ...] (set_initial_event), maxloop
Flags of a run: lazy, cache, strategy (schedule), seed, rev (start order variant).

Behaviour script (all keys optional):
  step_size (time-based), self_steps {"t" or "t,k": next}, outputs {"t,k": [out_time|None, [attrs]]},
  get_data {"t,k": [[target sid, attr], ...]} (asynchronous get_data requests issued during the step),
  default_output [out_time|None, [attrs]], none_outputs ["t,k", ...] (steps whose 'po' value - or the values of none_attrs - are None), bad {"t,k": ["step"|"time", value]} (malformed reply injection),
  set_data {"t,k": [[dest_sim_index, attr, token], ...]} (async set_data issued during that step)
"""
from __future__ import annotations
import asyncio, copy, inspect, json, random, sys, types, warnings
warnings.simplefilter('ignore')
import mosaik, mosaik_api_v3
import mosaik.scheduler as sched
from loguru import logger
logger.remove()
import logging
logging.getLogger('asyncio').setLevel(logging.CRITICAL)

CTX = types.SimpleNamespace(ctrl=None, world=None)


class Controller:
    """Owns the gates; opens one whenever the event loop is idle (or, in 'fine' mode, after a few iterations)."""
    def __init__(self, strategy='random', seed=0, script=None, fine=False, instant=()):
        self.waiting = {}      # key (sid, kind) -> future, in arrival order
        self.log = []
        self.rng = random.Random(seed)
        self.strategy = strategy
        self.async_depth = 0
        self.script = list(script or [])
        self.fine = fine
        self.instant = instant     # simulators that answer without ever suspending ('all' or a collection of sids)
        self.opened = []
        self.rr = 0

    def gate(self, key):
        fut = asyncio.get_event_loop().create_future()
        if self.instant == 'all' or key[0] in self.instant:
            fut.set_result(None)       # awaiting a finished future does not yield to the event loop: the request is atomic
            return fut
        self.waiting[key] = fut
        return fut

    def choose(self, keys):
        if self.script:
            k = tuple(self.script.pop(0))
            if k in keys: return k
        s = self.strategy
        if s == 'oldest': return keys[0]
        if s == 'newest': return keys[-1]
        if s.startswith('starve:'):
            victim = s.split(':', 1)[1]
            others = [k for k in keys if k[0] != victim]
            return self.rng.choice(others) if others else keys[0]
        if s == 'rr':
            ks = sorted(keys); self.rr += 1
            return ks[self.rr % len(ks)]
        return self.rng.choice(sorted(keys))

    async def run(self, main_task):
        loop = asyncio.get_event_loop()
        idle_rounds = 0
        while not main_task.done():
            if self.fine:
                for _ in range(self.rng.randint(1, 3)):
                    await asyncio.sleep(0)
                quiescent = not loop._ready
            else:
                n = 0
                while True:
                    await asyncio.sleep(0)
                    n += 1
                    if not loop._ready or n > 100000 or main_task.done(): break
                quiescent = True
            if main_task.done(): break
            if not self.waiting:
                if not loop._ready:
                    idle_rounds += 1
                    if idle_rounds > 3:
                        self.log.append(('DEADLOCK',))
                        main_task.cancel()
                        break
                continue
            idle_rounds = 0
            if quiescent:
                snap = None
                try:
                    snap = {sid: (tuple(sim.progress.time.tiers), sorted(tuple(t.tiers) for t in sim.next_steps))
                            for sid, sim in CTX.world.sims.items()}
                except Exception:
                    snap = None
                self.log.append(('QUIESCE', snap))
            for k0 in [k0 for k0, f0 in self.waiting.items() if f0.done()]:
                del self.waiting[k0]          # cancelled together with its sim_process task
            if not self.waiting: continue
            keys = list(self.waiting)
            k = self.choose(keys)
            self.opened.append(k)
            self.waiting.pop(k).set_result(None)


def _key(t, k): return f'{t},{k}'


class GSim(mosaik_api_v3.Simulator):
    """Scripted simulator whose step()/get_data() block on gates."""
    def __init__(self):
        super().__init__({'api_version': '3.0', 'type': 'time-based',
                          'models': {'M': {'public': True, 'params': [], 'attrs': ['i', 'ti', 't2', 'po', 'eo', 'e2']}}})

    def init(self, sid, time_resolution=1.0, beh=None):
        self.sid = sid; self.beh = beh or {}
        self.meta = copy.deepcopy(self.meta)
        t = self.beh.get('type', 'time-based')
        self.meta['type'] = self.beh.get('meta_type', t)      # (meta_type: the type as the simulator spells it in its meta)
        m = self.meta['models']['M']
        if t == 'hybrid':
            m['trigger'] = ['ti', 't2']; m['non-persistent'] = ['eo', 'e2']; m['attrs'] = ['i', 'ti', 't2', 'po', 'eo', 'e2']
        elif t == 'event-based':
            m['attrs'] = ['ti', 't2', 'eo', 'e2']
        else:
            m['attrs'] = ['i', 'po']
        if self.beh.get('api_version'):
            # a simulator written for an older API: it is reached through mosaik's version adapters (step is then called
            # without max_advance)
            self.meta['api_version'] = self.beh['api_version']
        if self.beh.get('parent_model'):
            # a second model whose attribute facts differ from M's: 'nope' exists, i/ti swap trigger-ness, po/eo swap persistence
            self.meta['models']['P'] = {'public': True, 'params': [], 'attrs': ['i', 'ti', 'po', 'eo', 'nope'],
                                        'trigger': ['i'], 'non-persistent': ['po', 'nope']}
        if self.beh.get('any_inputs_model'):
            # a model that accepts any input (any_inputs) and leaves trigger / non-trigger to the type's defaults:
            # for a hybrid simulator every input of it is a non-trigger input
            self.meta['models']['A'] = {'public': True, 'params': [], 'attrs': ['po', 'eo'], 'any_inputs': True}
            if self.beh['any_inputs_model'] == 'nt':
                # ... and names one of its inputs as non-trigger: every other input of it is then a trigger input
                self.meta['models']['A']['non-trigger'] = ['i']
        self.count = {}
        return self.meta

    def create(self, num, model):
        if model == 'P':        # hierarchical entities: the child is of model M and keeps the entity id 'e'
            return [{'eid': 'p', 'type': 'P', 'children': [{'eid': 'e', 'type': 'M'}]}]
        # num > 1: mirror entities m1, m2, ... beside e
        return [{'eid': 'e' if k == 0 else f'm{k}', 'type': model} for k in range(num)]

    def step(self, time, inputs, max_advance=None):
        ctrl = CTX.ctrl
        cs = CTX.world.sims[self.sid].current_step
        self.time = time
        k = self.count.get(time, 0); self.count[time] = k + 1; self.k = k
        ctrl.log.append(('BEGIN', self.sid, tuple(cs.tiers), max_advance, copy.deepcopy(inputs)))
        yield ctrl.gate((self.sid, 'step'))
        b = self.beh
        items = b.get('set_data', {}).get(_key(time, k), [])
        if b.get('set_data_batched'):
            # one set_data call carrying everything the agent entities of this simulator write in this step
            call = {}
            for it in items:
                dest, attr, tok = it[:3]; w = it[3] if len(it) > 3 else 0
                call.setdefault(f'{self.sid}.' + ('e' if w == 0 else f'a{w}'), {}).setdefault(f'{dest}.e', {})[attr] = tok
            for src, dests in call.items():          # the order in which MosaikRemote.set_data processes the call
                for dfull, attrs in dests.items():
                    for attr, tok in attrs.items():
                        ctrl.log.append(('SETDATA', self.sid, dfull.split('.')[0], attr, tok, 0 if src.endswith('.e') else int(src.split('.a')[1])))
            if call:
                yield self.mosaik.set_data(call)
        else:
            for it in items:
                dest, attr, tok = it[:3]; w = it[3] if len(it) > 3 else 0
                ctrl.log.append(('SETDATA', self.sid, dest, attr, tok, w))
                yield self.mosaik.set_data({f'{self.sid}.' + ('e' if w == 0 else f'a{w}'): {f'{dest}.e': {attr: tok}}})
        for it in b.get('get_data', {}).get(_key(time, k), []):
            # asynchronous get_data request towards another simulator (answered from its cache, or by asking it)
            dest, attr = it[:2]
            ctrl.log.append(('GETDATA', self.sid, dest, attr))
            ctrl.async_depth += 1          # (per run: a suspended generator of an aborted run is finalised later)
            try:
                res = yield self.mosaik.get_data({f'{dest}.e': [attr]})
            finally:
                ctrl.async_depth -= 1
            ctrl.log.append(('GOTDATA', self.sid, dest, attr, copy.deepcopy(res)))
        bad = b.get('bad', {}).get(_key(time, k))
        if bad and bad[0] == 'step':
            r = bad[1]
            if isinstance(r, str) and r.startswith('float:'): r = float(r[6:])
        elif b.get('type', 'time-based') == 'time-based':
            r = time + b.get('step_size', 1)
        else:
            ss = b.get('self_steps', {})
            r = ss.get(_key(time, k), ss.get(str(time)) if k == 0 else None)
        ctrl.log.append(('STEP', self.sid, r))
        return r

    def get_data(self, outputs):
        ctrl = CTX.ctrl
        if ctrl.async_depth > 0:
            # asked on behalf of another simulator's asynchronous get_data request (value not in the cache): not a block of
            # this simulator's own step
            return {eid: {a: f'{self.sid}@async' for a in attrs} for eid, attrs in outputs.items()}
        yield ctrl.gate((self.sid, 'get_data'))
        b = self.beh
        spec = b.get('outputs', {}).get(_key(self.time, self.k), b.get('default_output'))
        if spec is None:
            d = {}
        else:
            ot, attrs = spec
            if b.get('reuse_reply'):
                # a simulator that keeps ONE reply dict and updates it in place (what mosaik does to the object it is handed is
                # then visible in later replies); 'time' is only written when the script gives an output time
                d = self.__dict__.setdefault('_reply', {})
                for key in [x for x in d if x != 'time']: del d[key]
            else:
                d = {}
            d['e'] = {a: f'{self.sid}@{self.time}.{self.k}' for a in attrs if a in outputs.get('e', [])}
            for eid in outputs:
                if eid != 'e':       # mirror entities produce the same attributes, the value tokens carry their id
                    d[eid] = {a: f'{self.sid}@{self.time}.{self.k}#{eid}' for a in attrs if a in outputs[eid]}
            if _key(self.time, self.k) in b.get('none_outputs', ()):
                # "no reading": the persistent attribute is produced with the value None
                for eid in [x for x in d if isinstance(d[x], dict)]:
                    for a in d[eid]:
                        if a in b.get('none_attrs', ('po',)): d[eid][a] = None
            if ot is not None: d['time'] = ot
        bad = b.get('bad', {}).get(_key(self.time, self.k))
        if bad and bad[0] == 'time':
            d['time'] = bad[1]
        ctrl.log.append(('DATA', self.sid, d.get('time', self.time), copy.deepcopy(d.get('e', {})), 'time' in d))
        return d


def _drive(g):
    """run a generator-style request handler to its end without suspending (its gates are open: the simulator is 'instant')"""
    try:
        x = next(g)
        while True:
            if not (isinstance(x, asyncio.Future) and x.done()): raise RuntimeError('a plain simulator cannot suspend')
            x = g.send(x.result())
    except StopIteration as e:
        return e.value


class PSim(GSim):
    """the same scripted simulator with PLAIN step and get_data methods (no generators): it answers every request at once,
    inside mosaik's own call - what most in-process simulators look like.  No asynchronous requests."""
    def step(self, time, inputs, max_advance=None): return _drive(GSim.step(self, time, inputs, max_advance))
    def get_data(self, outputs):
        r = GSim.get_data(self, outputs)
        return _drive(r) if inspect.isgenerator(r) else r


def _relay(g):
    """pass on only REAL requests of a generator-style handler: an open gate (a finished future) is stepped over silently"""
    try:
        x = next(g)
        while True:
            if isinstance(x, asyncio.Future) and x.done(): x = g.send(x.result())
            else: x = g.send((yield x))
    except StopIteration as e:
        return e.value


class QSim(GSim):
    """the same scripted simulator with a generator-style step that makes NO request in a call unless the script has an
    asynchronous request (set_data / get_data) for it: a generator that finishes without having yielded anything.  (get_data
    keeps yielding its - open - gate.)"""
    def step(self, time, inputs, max_advance=None):
        return (yield from _relay(GSim.step(self, time, inputs, max_advance)))


def build_world(case, cache=True, rev=False, debug=False):
    world = mosaik.World({'S': {'python': 'harness.simlib:GSim'}, 'P': {'python': 'harness.simlib:PSim'}, 'Q': {'python': 'harness.simlib:QSim'}}, cache=cache, skip_greetings=True,
                         max_loop_iterations=case.get('maxloop', 100), debug=debug)
    n = case['n']
    ents = {}; mirrors = {}
    grp = [tuple(g) for g in case['grp']]

    def start(i):
        mf = world.start('P' if i in case.get('plain', ()) else 'Q' if i in case.get('quiet', ()) else 'S', sim_id=f'S{i}', beh=copy.deepcopy(case['beh'][i]))
        if case.get('mirror'):
            # several entities per simulator: e and the mirror entities m1, m2, ..., connected index by index
            allents = mf.M.create(1 + case['mirror'])
            ents[i] = allents[0]; mirrors[i] = allents[1:]
            return
        ents[i] = mf.P().children[0] if case['beh'][i].get('parent_model') else mf.A() if case['beh'][i].get('any_inputs_model') else mf.M()

    def visit(path):
        here = [i for i in range(n) if grp[i] == path]
        kids = sorted({g[:len(path) + 1] for g in grp if len(g) > len(path) and g[:len(path)] == path})
        if isinstance(rev, (list, tuple)):
            here = sorted(here, key=lambda i: list(rev).index(i))      # an explicit start order (a permutation of the simulators)
        elif rev:
            here = here[::-1]; kids = kids[::-1]
        for i in here: start(i)
        for kpath in kids:
            with world.group():
                visit(kpath)
    visit(())
    for e in case['edges']:
        if e.get('pure_async'):
            # async_requests between two simulators without any data connection
            world.connect(ents[e['a']], ents[e['b']], async_requests=True)
            continue
        kw = {}
        if e['kind'] == 'ts': kw['time_shifted'] = e.get('shift', 1)
        if e['kind'] == 'w': kw['weak'] = True
        if e.get('init'): kw['initial_data'] = {e['sa']: f"init{e['a']}-{e['b']}"}
        if e.get('async'): kw['async_requests'] = True
        world.connect(ents[e['a']], ents[e['b']], (e['sa'], e['da']), **kw)
        for ma, mb in zip(mirrors.get(e['a'], []), mirrors.get(e['b'], [])):
            kw2 = {k_: v_ for k_, v_ in kw.items() if k_ != 'async_requests'}
            world.connect(ma, mb, (e['sa'], e['da']), **kw2)
    for (i, t) in case.get('init', []):
        world.set_initial_event(f'S{i}', t)
    return world


class Hang(BaseException):
    pass


class Run:
    """result of one execution of a case on the implementation"""
    def __init__(self):
        self.log = []; self.exc = None; self.world = None; self.opened = []; self.build_error = None
        self.init_nexts = {}; self.init_outputs = {}; self.init_persist = {}

    @property
    def outcome(self):
        if self.build_error is not None:
            return 'build:' + type(self.build_error).__name__
        if any(l[0] == 'DEADLOCK' for l in self.log): return 'DEADLOCK'
        if self.exc is None: return 'ok'
        return type(self.exc).__name__ + ':' + str(self.exc)[:160]


def run_case(case, lazy=True, cache=True, strategy='random', seed=0, script=None, fine=False, rev=False,
             debug=False, timeout_events=20000, instant=()) -> Run:
    r = Run()
    if (case.get('plain') or case.get('quiet')) and instant != 'all': instant = sorted(set(instant) | {f'S{i}' for i in list(case.get('plain', ())) + list(case.get('quiet', ()))})
    CTX.ctrl = ctrl = Controller(strategy, seed, script, fine, instant)
    try:
        world = build_world(case, cache, rev, debug or bool(case.get('debug')))     # a case may ask for World(debug=True)
    except Exception as e:     # ScenarioError etc. while connecting
        r.build_error = e
        return r
    CTX.world = world
    r.world = world
    r.init_nexts = {s: [tuple(t.tiers) for t in sim.next_steps] for s, sim in world.sims.items()}
    r.init_outputs = {s: copy.deepcopy(sim.outputs) for s, sim in world.sims.items()}
    r.init_persist = {s: copy.deepcopy(sim.persistent_inputs) for s, sim in world.sims.items()}
    real_pc = sched.perf_counter

    def pc():
        f = sys._getframe(1)
        if f.f_code.co_name == 'sim_process':
            ctrl.log.append(('START', f.f_locals['sim'].sid))
        return real_pc()
    sched.perf_counter = pc
    orig = world.loop.run_until_complete

    def patched(coro):
        async def wrapper():
            t = asyncio.ensure_future(coro); c = asyncio.ensure_future(ctrl.run(t))
            try:
                return await t
            finally:
                await c
        return orig(wrapper())
    world.loop.run_until_complete = lambda coro: patched(coro) if getattr(coro, '__name__', '') == 'run' else orig(coro)
    # watchdog: World.run() checks the scenario for cycles before the event loop starts; that closure can ping-pong between
    # two delays of equal tiers and different cutoff for ever (non-convex scenarios, depending on set order: finding F9h)
    import signal, threading
    use_alarm = threading.current_thread() is threading.main_thread() and signal.getsignal(signal.SIGALRM) in (signal.SIG_DFL, None, signal.SIG_IGN)
    if use_alarm:
        def _alarm(sig, frm): raise Hang('World.run() did not return within 30 s')
        signal.signal(signal.SIGALRM, _alarm); signal.alarm(30)
    try:
        world.run(case['until'], print_progress=False, lazy_stepping=lazy)
    except BaseException as e:
        r.exc = e
        try:
            if not world.loop.is_closed(): world.shutdown()
        except Exception:
            pass
    finally:
        if use_alarm:
            signal.alarm(0); signal.signal(signal.SIGALRM, signal.SIG_DFL)
        sched.perf_counter = real_pc
    r.log = ctrl.log
    r.opened = ctrl.opened
    return r


def gtab_of(grp):
    """group table (parents, creation order as in build_world) and path -> group id"""
    grp = [tuple(g) for g in grp]
    ids = {(): 0}; parents = [-1]

    def visit(path, rev=False):
        kids = sorted({g[:len(path) + 1] for g in grp if len(g) > len(path) and g[:len(path)] == path})
        for k in kids:
            ids[k] = len(parents); parents.append(ids[path]); visit(k)
    visit(())
    return parents, ids


def iv(d):
    return f'{d.pre_length} {d.cutoff} {len(d.tiers)} ' + ' '.join(map(str, d.tiers))


def tm(t):
    return f'{len(t)} ' + ' '.join(map(str, t)) if len(t) else '0'
