#!/usr/bin/env python3
"""Fail-closed translator for World.connect_one (mosaik/scenario.py) -> Coq (Gen/ConnectOne.v).

connect_one validates one attribute pair and then updates the tables of the two SimRunners.  The translator walks the body
statement by statement, IN SOURCE ORDER, and emits a function

    connect_one (gt : gtab) (sg dg : nat) (f : cflags) : gen_result

(Static/GenConn.v) that accumulates the table updates as a list of effects (Static/Connect.v `effect`) and stops at the first
exception with the effects made BEFORE it: Accepted effects / Rejected problems effects-before / WeakRoot effects-before /
Crashed error effects-before.  The tie (Static/ConnOneTie.v) proves it equal to the model's connect_one with no effect before
any rejection - "a rejected pair leaves nothing behind" is then a property of the source's statement order.

Vocabulary (anything else -> exit status 2):
  conditions   src_attr not in src.model_mock.output_attrs            -> negb (src_is_out f)
               dest_attr not in dest.model_mock.input_attrs            -> negb (dst_is_in f)
               (time_shifted or weak) and dest_attr in dest.model_mock.measurement_inputs
                                                                       -> (negb (shifted f =? 0) || weak f) && dst_nontrigger f
               initial_data is SENTINEL / is not SENTINEL              -> negb (has_init f) / has_init f
               src.is_persistent(src_attr) and (not self.use_cache)   -> src_persistent f && negb (use_cache f)
               dest.triggered_by(dest_attr)                            -> dst_trigger f
               is_pulled (= src_sim.outputs is not None and src.is_persistent(src_attr); outputs exist iff the cache is on)
               problems                                                -> the list of problems is not empty
  statements   problems.append("...") with the three known texts      -> a problem
               raise ScenarioError(...) under `if problems:`           -> rejection
               delay = connect_interval(src_group, dest_group, int(time_shifted), int(weak))   -> the delay (may raise)
               the nine table updates listed in EFFECTS below          -> one effect each
               src_sim.successors[dest_sim] = connect_interval(src_group, dest_group)          -> the plain interval (may raise), ESuccessor
  skipped      naming assignments (src_sim, dest_sim, src_port, dest_port, src_group, dest_group, problems = []), the default
               of dest_attr, branches that only call logger.warning, `assert src_sim.outputs is not None` (under is_pulled),
               self.entity_graph.add_edge(src.full_id, dest.full_id) (the entity graph is not part of the scheduler tables;
               it is what C18's checks read)
connect_interval is the specification Static.Groups.connect_interval (equal to the translated function by
Static/ConnTie.tie_connect_interval).
Usage: py2coq_connone.py <repo> <outdir>
"""
import ast, os, sys


class Unsupported(Exception):
    pass


def bail(node, why=''):
    raise Unsupported(f"line {getattr(node, 'lineno', '?')}: {type(node).__name__} {why}")


CONDS = {
    'src_attr not in src.model_mock.output_attrs': 'negb (src_is_out f)',
    'dest_attr not in dest.model_mock.input_attrs': 'negb (dst_is_in f)',
    '(time_shifted or weak) and dest_attr in dest.model_mock.measurement_inputs': '((negb (shifted f =? 0)%Z || weak f) && dst_nontrigger f)',
    'initial_data is SENTINEL': 'negb (has_init f)',
    'initial_data is not SENTINEL': 'has_init f',
    'src.is_persistent(src_attr) and (not self.use_cache)': '(src_persistent f && negb (use_cache f))',
    'dest.triggered_by(dest_attr)': 'dst_trigger f',
    'is_pulled': 'is_pulled',
}
PROBLEMS = {
    'the source attribute does not exist': 'PSrcAttr',
    'the destination attribute does not exist': 'PDstAttr',
    'weak or time-shifted connection into non-trigger attribute requires initial data': 'PInitialData',
}
EFFECTS = {
    'dest_sim.input_delays[src_sim] = min(dest_sim.input_delays.get(src_sim, delay), delay)': 'EInputDelay delay',
    'dest_sim.persistent_inputs.setdefault(dest.eid, {}).setdefault(dest_attr, {}).setdefault(src.full_id, None)': 'EPersistSetdefault',
    'src_sim.output_request.setdefault(src.eid, []).append(src_attr)': 'EOutputRequest',
    'dest_sim.pulled_inputs.setdefault((src_sim, delay), set()).add((src_port, dest_port))': 'EPulled delay',
    'src_sim.output_to_push.setdefault(src_port, []).append((dest_sim, delay, dest_port))': 'EPushed delay',
    'src_sim.triggers.setdefault(src_port, []).append((dest_sim, delay))': 'ETrigger delay',
    'src_sim.outputs.setdefault(-int(time_shifted), {}).setdefault(src.eid, {})[src_attr] = initial_data': 'EInitCache (- shifted f)%Z',
    'dest_sim.persistent_inputs.setdefault(dest.eid, {}).setdefault(dest_attr, {})[src.full_id] = initial_data': 'EInitPersist',
}
SKIP = {
    'src_sim = self.sims[src.sid]', 'dest_sim = self.sims[dest.sid]', 'src_port = (src.eid, src_attr)', 'dest_port = (dest.eid, dest_attr)',
    'problems: List[str] = []', 'src_group = src.model_mock._factory._group', 'dest_group = dest.model_mock._factory._group',
    'self.entity_graph.add_edge(src.full_id, dest.full_id)', 'assert src_sim.outputs is not None',
    'if not dest_attr:\n    dest_attr = src_attr',
}
DELAY = 'delay = connect_interval(src_group, dest_group, int(time_shifted), int(weak))'
SUCC = 'src_sim.successors[dest_sim] = connect_interval(src_group, dest_group)'
PULLED = 'is_pulled = src_sim.outputs is not None and src.is_persistent(src_attr)'


def only_warning(stmts):
    return all(isinstance(s, ast.Expr) and isinstance(s.value, ast.Call) and ast.unparse(s.value.func) == 'logger.warning' for s in stmts)


def cond(e):
    t = ast.unparse(e)
    if t not in CONDS: bail(e, 'condition ' + t)
    return CONDS[t]


class Gen:
    """emits a term in continuation style: state variables probs (list problem) and eff (list effect)"""
    def __init__(self): self.have_delay = False; self.have_pulled = False

    def block(self, stmts, k):
        """k: Coq term for what follows (uses probs / eff)"""
        if not stmts: return k
        st, rest = stmts[0], stmts[1:]
        after = self.block(rest, k) if False else None      # (computed lazily below: order of have_* flags matters)
        text = ast.unparse(st)
        if text in SKIP: return self.block(rest, k)
        if isinstance(st, ast.If) and only_warning(st.body) and (not st.orelse or only_warning(st.orelse)):
            return self.block(rest, k)
        if text == DELAY:
            if self.have_delay: bail(st, 'delay computed twice')
            self.have_delay = True
            body = self.block(rest, k)
            return (f"match connect_interval gt sg dg (shifted f) (if weak f then 1 else 0)%Z with\n"
                    f"  | CErr CScenarioError => GWeakRoot eff\n  | CErr e => GCrashed e eff\n  | COk delay =>\n  {body}\n  end")
        if text == PULLED:
            self.have_pulled = True
            return f"let is_pulled := use_cache f && src_persistent f in\n  {self.block(rest, k)}"
        if text == SUCC:
            body = self.block(rest, k)
            return (f"match connect_interval gt sg dg 0%Z 0%Z with\n  | CErr e => GCrashed e eff\n  | COk plain =>\n"
                    f"  let eff := eff ++ [ESuccessor plain] in\n  {body}\n  end")
        if text in EFFECTS:
            e = EFFECTS[text]
            if 'delay' in e and not self.have_delay: bail(st, 'delay used before it is computed')
            return f"let eff := eff ++ [{e}] in\n  {self.block(rest, k)}"
        if isinstance(st, ast.Expr) and isinstance(st.value, ast.Call) and ast.unparse(st.value.func) == 'problems.append' and len(st.value.args) == 1 \
                and isinstance(st.value.args[0], ast.Constant) and st.value.args[0].value in PROBLEMS:
            return f"let probs := probs ++ [{PROBLEMS[st.value.args[0].value]}] in\n  {self.block(rest, k)}"
        if isinstance(st, ast.If):
            if ast.unparse(st.test) == 'problems':
                if st.orelse or len(st.body) != 1 or not (isinstance(st.body[0], ast.Raise) and isinstance(st.body[0].exc, ast.Call)
                                                           and ast.unparse(st.body[0].exc.func) == 'ScenarioError'): bail(st, 'rejection')
                return f"match probs with _ :: _ => GRejected probs eff | [] =>\n  {self.block(rest, k)}\n  end"
            c = cond(st.test)
            if c == 'is_pulled' and not self.have_pulled: bail(st, 'is_pulled used before it is computed')
            # both branches continue with the rest: the state after the if is (probs, eff)
            orelse = st.orelse
            if orelse and only_warning(orelse): orelse = []
            d0, p0 = self.have_delay, self.have_pulled
            b1 = self.block(st.body, '(probs, eff)')
            if (self.have_delay, self.have_pulled) != (d0, p0): bail(st, 'delay or is_pulled defined inside a branch')
            b2 = self.block(orelse, '(probs, eff)')
            if (self.have_delay, self.have_pulled) != (d0, p0): bail(st, 'delay or is_pulled defined inside a branch')
            for b in (b1, b2):
                if 'match' in b: bail(st, 'a call that may raise inside a branch')
            return f"let '(probs, eff) := (if {c} then ({b1}) else ({b2})) in\n  {self.block(rest, k)}"
        bail(st, 'statement: ' + text[:80])


WORLD_CONNECT = [
    'attr_pairs: Set[Tuple[Attr, Attr]] = set(((a, a) if isinstance(a, str) else a for a in attr_pairs))',
    'errors: List[ScenarioError] = []',
    'for src_attr, dest_attr in attr_pairs:\n    try:\n        self.connect_one(src, dest, src_attr, dest_attr, time_shifted=time_shifted, weak=weak, initial_data=initial_data.get(src_attr, SENTINEL))\n    except ScenarioError as e:\n        errors.append(e)',
    "if errors:\n    raise ScenarioError('While connecting entities, the following errors occurred:\\n - ' + '\\n - '.join((str(e) for e in errors)))",
    'if async_requests:\n    self.connect_async_requests(src.model_mock._factory, dest.model_mock._factory)',
    'trigger: Set[Tuple[EntityId, Attr]] = set()',
    'for src_attr, dest_attr in attr_pairs:\n    if dest.triggered_by(dest_attr):\n        trigger.add((src.eid, src_attr))',
    'self.entity_graph.add_edge(src.full_id, dest.full_id)',
]
CONNECT_ASYNC = [
    'src_sim = self.sims[src._sid]', 'dest_sim = self.sims[dest._sid]', 'delay = connect_interval(src._group, dest._group)',
    'src_sim.successors[dest_sim] = delay', 'src_sim.successors_to_wait_for[dest_sim] = delay', 'dest_sim.input_delays[src_sim] = delay',
]


def skeletons(cls):
    """World.connect and World.connect_async_requests are compared with the text the model (Static/Build.v connect) assumes: every
    attribute pair goes through connect_one with the call's own flags, the collected errors are raised BEFORE the async-requests
    relation is entered (a rejected call leaves nothing behind: finding F23), and that relation is the plain interval of the two
    groups in successors, successors_to_wait_for and input_delays"""
    def body_of(name):
        f = [n for n in cls.body if isinstance(n, ast.FunctionDef) and n.name == name]
        if len(f) != 1: raise Unsupported(f'World.{name} not found')
        b = list(f[0].body)
        if b and isinstance(b[0], ast.Expr) and isinstance(b[0].value, ast.Constant) and isinstance(b[0].value.value, str): b = b[1:]
        return f[0], b
    f, b = body_of('connect')
    sig = [a.arg for a in f.args.args] + ['*' + f.args.vararg.arg if f.args.vararg else ''] + [a.arg for a in f.args.kwonlyargs]
    if sig != ['self', 'src', 'dest', '*attr_pairs', 'async_requests', 'time_shifted', 'initial_data', 'weak']: bail(f, f'signature of World.connect {sig}')
    got = [ast.unparse(x) for x in b]
    if got != WORLD_CONNECT:
        k = next((i for i in range(min(len(got), len(WORLD_CONNECT))) if got[i] != WORLD_CONNECT[i]), min(len(got), len(WORLD_CONNECT)))
        bail(b[k] if k < len(b) else f, 'World.connect differs from the text the model assumes')
    f, b = body_of('connect_async_requests')
    got = [ast.unparse(x) for x in b if not ast.unparse(x).startswith('warnings.warn(')]
    if got != CONNECT_ASYNC: bail(f, 'World.connect_async_requests differs from the text the model assumes')


def main():
    repo, outdir = sys.argv[1], sys.argv[2]
    tree = ast.parse(open(os.path.join(repo, 'mosaik', 'scenario.py')).read())
    cls = [n for n in tree.body if isinstance(n, ast.ClassDef) and n.name == 'World']
    if len(cls) != 1: raise Unsupported('class World not found')
    fns = [n for n in cls[0].body if isinstance(n, ast.FunctionDef) and n.name == 'connect_one']
    if len(fns) != 1: raise Unsupported('World.connect_one not found')
    fn = fns[0]
    skeletons(cls[0])
    if [a.arg for a in fn.args.args] != ['self', 'src', 'dest', 'src_attr', 'dest_attr', 'time_shifted', 'weak', 'initial_data']: bail(fn, 'signature')
    if [ast.unparse(d) for d in fn.args.defaults] != ['None', 'False', 'False', 'SENTINEL']: bail(fn, 'defaults')
    body = list(fn.body)
    if body and isinstance(body[0], ast.Expr) and isinstance(body[0].value, ast.Constant) and isinstance(body[0].value.value, str): body = body[1:]
    term = Gen().block(body, 'GAccepted eff')
    text = '\n'.join(["(* generated by harness/py2coq_connone.py from mosaik/scenario.py (World.connect_one) -- do not edit; regenerated on every run *)",
                      "From Coq Require Import ZArith List Bool Arith.", "Import ListNotations.",
                      "From MV Require Import Time.Spec Static.Groups Static.Connect Static.GenConn.", "",
                      "Definition connect_one (gt : gtab) (sg dg : nat) (f : cflags) : gen_result :=",
                      "  let probs := @nil problem in", "  let eff := @nil effect in", "  " + term + ".", ""])
    path = os.path.join(outdir, 'ConnectOne.v')
    if not os.path.exists(path) or open(path).read() != text:
        open(path, 'w').write(text)


if __name__ == '__main__':
    try:
        main()
    except Unsupported as e:
        sys.stderr.write(f'py2coq_connone: unsupported construct: {e}\n'); sys.exit(2)
    except SyntaxError as e:
        sys.stderr.write(f'py2coq_connone: {e}\n'); sys.exit(2)
