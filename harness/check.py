"""Entry point: ./check <Cxx> [--tier quick|thorough] [--replay file]   (DESIGN.md 2.6)"""
import argparse, importlib, os, sys, traceback
from . import common

def main():
    ap = argparse.ArgumentParser()
    ap.add_argument('pid')
    ap.add_argument('--tier', default=os.environ.get('VERIF_TIER', 'quick'), choices=['quick', 'thorough'])
    ap.add_argument('--replay')
    a = ap.parse_args()
    seed = int(os.environ.get('VERIF_SEED', '0') or 0)
    mod = importlib.import_module('harness.props.' + a.pid.lower())
    out = common.Outcome(a.pid, a.tier, seed)
    if a.replay:
        sys.exit(mod.replay(a.replay, out))
    info = common.build()
    # overall watchdog: a check that hangs is reported as broken, never left running
    import threading
    budget = 900 if a.tier == 'quick' else 6 * 3600
    def _wd():
        out.broken.append(f'check exceeded its time budget of {budget} s (hang?)')
        rc = out.finish(); sys.stdout.flush(); os._exit(rc or 1)
    wd = threading.Timer(budget, _wd); wd.daemon = True; wd.start()
    try:
        mod.run(out, info, a.tier, seed)
    except Exception:
        # the machinery itself failed: report as a broken correspondence rather than pass silently
        out.broken.append('harness-crash')
        out.notes.append(traceback.format_exc()[-3000:])
        traceback.print_exc()
    sys.exit(out.finish())

if __name__ == '__main__':
    main()
