#!/usr/bin/env python3
"""Fail-closed translator for the two progress formulas of mosaik/scheduler.py -> Coq (Gen/SchedulerFns.v):

  get_max_advance(world, sim, until)      -> get_max_advance  (the max_advance handed to step())
  advance_progress(sim, world)            -> advance_progress (the new progress of a simulator)

Both are pure computations over a few fields of SimRunner objects followed (advance_progress) by the assignment of the
result.  The translator accepts exactly the statement and expression forms listed below and exits with status 2 on
anything else (a broken tie).  The objects are seen through a view (Sched/GenView.v):
  sim.triggering_ancestors.items()  -> anc : list (simview * interval)   (a dict: each ancestor once)
  X.next_steps (a heapq heap)       -> sv_next_steps X ; X.next_steps[0] is heap0 = the smallest element (trusted: heapq
                                       invariant), only accepted under the guard `if X.next_steps`
  X.current_step (Optional)         -> sv_current_step X, only accepted under the guard `X.current_step is not None` or the
                                       truthiness test `X.current_step` (a TieredTime always has at least one tier, so a
                                       present value is truthy - trusted)
  for `sim` itself the two fields are the parameters own_next_steps / own_current_step
  TieredTime + TieredInterval       -> Time.Spec.act (equal to the translated TieredTime.__add__ by Time/Tie.tie_act)
  E.time                            -> thd E
  TieredTime(world.until) + sim.from_world_time -> act [until] from_world_time
  min([*A, *B, ..., E])             -> tmin_ne / zmin_ne (A ++ B ++ ...) E  (the list is never empty: the last element)
  the real-time branch of advance_progress (`if world.rt_factor:`) must be, literally, the two assignments
  rt_passed = perf_counter() - sim.rt_start ; rt_progress = [TieredTime(ceil(rt_passed / world.rt_factor)) + sim.from_world_time]
  and the else branch rt_progress = []: the generated function takes rt : option Z (None = not in real-time mode,
  Some k = ceil(rt_passed / rt_factor)); the wall clock itself is not modelled here (Ext/RT.v).
  sim.progress.set(new_progress) is the result; sim.tqdm.update(...) (the progress bar) is ignored.
Usage: py2coq_sched.py <repo> <outdir>
"""
import ast, os, sys


class Unsupported(Exception):
    pass


def bail(node, why=''):
    raise Unsupported(f"line {getattr(node, 'lineno', '?')}: {type(node).__name__} {why}")


def is_name(e, n): return isinstance(e, ast.Name) and e.id == n
def is_attr(e, obj, attr): return isinstance(e, ast.Attribute) and e.attr == attr and is_name(e.value, obj)


class Ctx:
    def __init__(self, own='sim'):
        self.own = own
        self.loop = None            # name of the ancestor loop variable
        self.dist = None            # name of the distance loop variable
        self.bound = {}             # (obj, field) -> Coq variable bound by a guard
        self.locals = {}            # local list variables -> 'time' | 'Z'


def field(ctx, obj, f):
    """Coq term for obj.f where f in next_steps / current_step"""
    if obj == ctx.own: return {'next_steps': 'own_next_steps', 'current_step': 'own_current_step'}[f]
    if obj == ctx.loop: return {'next_steps': f'(sv_next_steps {obj})', 'current_step': f'(sv_current_step {obj})'}[f]
    raise Unsupported(f'field {f} of unknown object {obj}')


def guard(ctx, c):
    """a condition that binds a value: returns (scrutinee, bound variable, key)"""
    # X.next_steps (non-empty heap)
    if isinstance(c, ast.Attribute) and c.attr == 'next_steps' and isinstance(c.value, ast.Name):
        o = c.value.id
        return f'heap0 {field(ctx, o, "next_steps")}', f'h_{o}', (o, 'next_steps')
    # X.current_step is not None   /   X.current_step (truthiness)
    if isinstance(c, ast.Compare) and len(c.ops) == 1 and isinstance(c.ops[0], ast.IsNot) and isinstance(c.comparators[0], ast.Constant) \
            and c.comparators[0].value is None:
        c = c.left
    if isinstance(c, ast.Attribute) and c.attr == 'current_step' and isinstance(c.value, ast.Name):
        o = c.value.id
        return field(ctx, o, 'current_step'), f'c_{o}', (o, 'current_step')
    bail(c, 'condition')


def texpr(ctx, e):
    """an expression of type TieredTime"""
    if isinstance(e, ast.BinOp) and isinstance(e.op, ast.Add):
        # TieredTime(world.until) + sim.from_world_time
        if isinstance(e.left, ast.Call) and is_name(e.left.func, 'TieredTime') and len(e.left.args) == 1 and not e.left.keywords \
                and is_attr(e.left.args[0], 'world', 'until') and is_attr(e.right, ctx.own, 'from_world_time'):
            return '(act [until] from_world_time)'
        if is_name(e.right, ctx.dist):
            return f'(act {texpr(ctx, e.left)} {ctx.dist})'
        bail(e, 'sum')
    if isinstance(e, ast.Subscript) and isinstance(e.slice, ast.Constant) and e.slice.value == 0 and isinstance(e.value, ast.Attribute) \
            and e.value.attr == 'next_steps' and isinstance(e.value.value, ast.Name):
        key = (e.value.value.id, 'next_steps')
        if key not in ctx.bound: bail(e, 'next_steps[0] outside its guard')
        return ctx.bound[key]
    if isinstance(e, ast.Attribute) and e.attr == 'current_step' and isinstance(e.value, ast.Name):
        key = (e.value.id, 'current_step')
        if key not in ctx.bound: bail(e, 'current_step outside its guard')
        return ctx.bound[key]
    bail(e, 'time expression')


def elem(ctx, e, typ):
    """element of a list of type typ ('time' or 'Z')"""
    if typ == 'time': return texpr(ctx, e)
    if isinstance(e, ast.Attribute) and e.attr == 'time': return f'(thd {texpr(ctx, e.value)})'
    bail(e, 'integer element')


def guarded_singleton(ctx, cond, e, typ):
    scrut, var, key = guard(ctx, cond)
    if key in ctx.bound: bail(cond, 'nested guard on the same field')
    ctx.bound[key] = var
    try:
        body = elem(ctx, e, typ)
    finally:
        del ctx.bound[key]
    return f'(match {scrut} with Some {var} => [{body}] | None => [] end)'


def items_iter(ctx, it, tgt):
    if not (isinstance(it, ast.Call) and isinstance(it.func, ast.Attribute) and it.func.attr == 'items' and not it.args
            and is_attr(it.func.value, ctx.own, 'triggering_ancestors')):
        bail(it, 'iterator')
    if not (isinstance(tgt, ast.Tuple) and len(tgt.elts) == 2 and all(isinstance(x, ast.Name) for x in tgt.elts)): bail(tgt, 'loop variables')
    a, d = tgt.elts[0].id, tgt.elts[1].id
    if a in (ctx.own, 'world', 'until') or d in (ctx.own, 'world', 'until') or a == d: bail(tgt, 'loop variable shadows')
    return a, d


def comprehension(ctx, e, typ):
    """[E for a, d in sim.triggering_ancestors.items() if C]"""
    if not (isinstance(e, ast.ListComp) and len(e.generators) == 1): bail(e, 'comprehension')
    g = e.generators[0]
    if g.is_async or len(g.ifs) != 1: bail(e, 'comprehension filter')
    ctx.loop, ctx.dist = items_iter(ctx, g.iter, g.target)
    try:
        body = guarded_singleton(ctx, g.ifs[0], e.elt, typ)
        return f'(flat_map (fun ad : simview * interval => let ({ctx.loop}, {ctx.dist}) := ad in {body}) anc)'
    finally:
        ctx.loop = ctx.dist = None


def list_expr(ctx, e, typ):
    if isinstance(e, ast.BinOp) and isinstance(e.op, ast.Add):
        return f'({list_expr(ctx, e.left, typ)} ++ {list_expr(ctx, e.right, typ)})'
    if isinstance(e, ast.ListComp): return comprehension(ctx, e, typ)
    if isinstance(e, ast.IfExp):
        # [E] if C else []
        if not (isinstance(e.body, ast.List) and len(e.body.elts) == 1 and isinstance(e.orelse, ast.List) and not e.orelse.elts): bail(e, 'conditional list')
        return guarded_singleton(ctx, e.test, e.body.elts[0], typ)
    if isinstance(e, ast.List) and not e.elts: return '[]'
    bail(e, 'list expression')


def min_call(ctx, e, typ):
    """min([*A, *B, ..., E])"""
    if not (isinstance(e, ast.Call) and is_name(e.func, 'min') and len(e.args) == 1 and not e.keywords and isinstance(e.args[0], ast.List)): bail(e, 'min')
    elts = e.args[0].elts
    if not elts or isinstance(elts[-1], ast.Starred): bail(e, 'min of a possibly empty list')
    parts = []
    for x in elts[:-1]:
        if not (isinstance(x, ast.Starred) and isinstance(x.value, ast.Name) and ctx.locals.get(x.value.id) == typ): bail(x, 'min element')
        parts.append(x.value.id)
    last = elts[-1]
    if typ == 'time': d = texpr(ctx, last)
    else:
        if not (isinstance(last, ast.BinOp) and isinstance(last.op, ast.Add) and is_name(last.left, 'until') and isinstance(last.right, ast.Constant) and last.right.value == 1): bail(last, 'last element')
        d = '(until + 1)'
    return f"({'tmin_ne' if typ == 'time' else 'zmin_ne'} ({' ++ '.join(parts) if parts else '[]'}) {d})"


def strip_doc(body):
    if body and isinstance(body[0], ast.Expr) and isinstance(body[0].value, ast.Constant) and isinstance(body[0].value.value, str): return body[1:]
    return body


def ann_type(a, node):
    s = ast.unparse(a)
    if s == 'List[Time]': return 'Z'
    if s == 'List[TieredTime]': return 'time'
    bail(node, 'annotation ' + s)


def loop_appends(ctx, st, var, typ):
    """for a, d in sim.triggering_ancestors.items(): (if C: var.append(E))+"""
    if st.orelse: bail(st, 'for-else')
    ctx.loop, ctx.dist = items_iter(ctx, st.iter, st.target)
    try:
        parts = []
        for s in st.body:
            if not (isinstance(s, ast.If) and not s.orelse and len(s.body) == 1 and isinstance(s.body[0], ast.Expr)): bail(s, 'loop statement')
            c = s.body[0].value
            if not (isinstance(c, ast.Call) and isinstance(c.func, ast.Attribute) and c.func.attr == 'append' and is_name(c.func.value, var)
                    and len(c.args) == 1 and not c.keywords): bail(s, 'append')
            parts.append(guarded_singleton(ctx, s.test, c.args[0], typ))
        if not parts: bail(st, 'empty loop')
        return f"(flat_map (fun ad : simview * interval => let ({ctx.loop}, {ctx.dist}) := ad in {' ++ '.join(parts)}) anc)"
    finally:
        ctx.loop = ctx.dist = None


RT_THEN = ["rt_passed = perf_counter() - sim.rt_start",
           "rt_progress = [TieredTime(ceil(rt_passed / world.rt_factor)) + sim.from_world_time]"]


def get_max_advance(fn):
    if [a.arg for a in fn.args.args] != ['world', 'sim', 'until']: bail(fn, 'signature')
    ctx = Ctx('sim'); lets = []
    body = strip_doc(fn.body)
    i = 0
    while i < len(body):
        st = body[i]
        if isinstance(st, ast.AnnAssign) and isinstance(st.target, ast.Name) and isinstance(st.value, ast.List) and not st.value.elts:
            # X: List[Time] = []  followed by the loop that fills it
            var = st.target.id; typ = ann_type(st.annotation, st)
            if i + 1 >= len(body) or not isinstance(body[i + 1], ast.For): bail(st, 'empty list without its loop')
            lets.append((var, loop_appends(ctx, body[i + 1], var, typ))); ctx.locals[var] = typ; i += 2; continue
        if isinstance(st, ast.Assign) and len(st.targets) == 1 and isinstance(st.targets[0], ast.Name):
            var = st.targets[0].id
            lets.append((var, list_expr(ctx, st.value, 'Z'))); ctx.locals[var] = 'Z'; i += 1; continue
        if isinstance(st, ast.Return) and i == len(body) - 1:
            v = st.value
            if not (isinstance(v, ast.BinOp) and isinstance(v.op, ast.Sub) and isinstance(v.right, ast.Constant) and v.right.value == 1): bail(st, 'return')
            res = f'({min_call(ctx, v.left, "Z")} - 1)'
            out = "Definition get_max_advance (anc : list (simview * interval)) (own_next_steps : list time) (own_current_step : option time) (until : Z) : Z :=\n"
            for var, t in lets: out += f"  let {var} := {t} in\n"
            return out + f"  {res}.\n"
        bail(st, 'statement')
    bail(fn, 'no return')


def advance_progress(fn):
    if [a.arg for a in fn.args.args] != ['sim', 'world']: bail(fn, 'signature')
    ctx = Ctx('sim'); lets = []; result = None
    for st in strip_doc(fn.body):
        if result is not None:
            # after the result has been stored only the progress bar may be updated
            if ast.unparse(st) != 'sim.tqdm.update(new_progress.time - sim.tqdm.n)': bail(st, 'statement after progress.set')
            continue
        if isinstance(st, ast.AnnAssign) and isinstance(st.target, ast.Name) and st.value is not None:
            var = st.target.id; typ = ann_type(st.annotation, st)
            lets.append((var, list_expr(ctx, st.value, typ))); ctx.locals[var] = typ; continue
        if isinstance(st, ast.Assign) and len(st.targets) == 1 and isinstance(st.targets[0], ast.Name):
            var = st.targets[0].id
            if isinstance(st.value, ast.Call):
                lets.append((var, min_call(ctx, st.value, 'time'))); ctx.locals[var] = 'onetime'; continue
            lets.append((var, list_expr(ctx, st.value, 'time'))); ctx.locals[var] = 'time'; continue
        if isinstance(st, ast.If):
            if not is_attr(st.test, 'world', 'rt_factor'): bail(st, 'if')
            if [ast.unparse(x) for x in st.body] != RT_THEN: bail(st, 'real-time branch differs from the modelled one')
            if [ast.unparse(x) for x in st.orelse] != ['rt_progress = []']: bail(st, 'else branch')
            lets.append(('rt_progress', '(match rt with Some k => [act [k] from_world_time] | None => [] end)')); ctx.locals['rt_progress'] = 'time'; continue
        if isinstance(st, ast.Expr) and ast.unparse(st) == 'sim.progress.set(new_progress)' and ctx.locals.get('new_progress') == 'onetime':
            result = 'new_progress'; continue
        bail(st, 'statement')
    if result is None: bail(fn, 'progress is never set')
    out = "Definition advance_progress (anc : list (simview * interval)) (own_next_steps : list time) (own_current_step : option time) (rt : option Z) (until : Z) (from_world_time : interval) : time :=\n"
    for var, t in lets: out += f"  let {var} := {t} in\n"
    return out + f"  {result}.\n"


def main():
    repo, outdir = sys.argv[1], sys.argv[2]
    tree = ast.parse(open(os.path.join(repo, 'mosaik', 'scheduler.py')).read())
    fns = {n.name: n for n in tree.body if isinstance(n, ast.FunctionDef)}
    for name in ('get_max_advance', 'advance_progress'):
        if name not in fns: raise Unsupported(f'function {name} not found')
    out = ["(* generated by harness/py2coq_sched.py from mosaik/scheduler.py -- do not edit; regenerated on every run *)",
           "From Coq Require Import ZArith List Bool Arith.", "Import ListNotations.", "From MV Require Import Time.Spec Sched.GenView.", "Open Scope Z_scope.", "",
           get_max_advance(fns['get_max_advance']), advance_progress(fns['advance_progress'])]
    text = '\n'.join(out)
    path = os.path.join(outdir, 'SchedulerFns.v')
    if not os.path.exists(path) or open(path).read() != text:
        open(path, 'w').write(text)


if __name__ == '__main__':
    try:
        main()
    except Unsupported as e:
        sys.stderr.write(f'py2coq_sched: unsupported construct: {e}\n'); sys.exit(2)
    except SyntaxError as e:
        sys.stderr.write(f'py2coq_sched: {e}\n'); sys.exit(2)
