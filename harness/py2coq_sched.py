#!/usr/bin/env python3
"""Fail-closed translator for the progress formulas and the step guard of mosaik/scheduler.py and mosaik/progress.py
-> Coq (Gen/SchedulerFns.v):

  get_max_advance(world, sim, until)      -> get_max_advance  (the max_advance handed to step())
  advance_progress(sim, world)            -> advance_progress (the new progress of a simulator)
  Progress._triggered_time                -> progress_triggered_time; _add_trigger / has_reached / has_passed are checked
                                             literally against the text they are modelled from (a missing shift is zero in
                                             every tier; the coroutine finishes as soon as _triggered_time is not None)
  wait_for_dependencies(sim, lazy_stepping) -> wait_for_dependencies_ready: the conjunction of the awaited conditions (loops
                                             over input_delays / successors_to_wait_for / successors appending
                                             X.progress.has_passed(next_step, shift=d) or has_reached(next_step + d), the last
                                             loop under `if lazy_stepping:`, then `await asyncio.gather` of the futures);
                                             a simulator is seen as the current value of its progress

Both are pure computations over a few fields of SimRunner objects followed (advance_progress) by the assignment of the
result.  The translator accepts exactly the statement and expression forms listed below and exits with status 2 on
anything else (a broken tie).  The objects are seen through a view (Sched/GenView.v):
  sim.triggering_ancestors.items()  -> anc : list (simview * interval)   (a dict: each ancestor once)
  X.next_steps (a heapq heap)       -> sv_next_steps X ; X.next_steps[0] is heap0 = the smallest element (trusted: heapq
                                       invariant), only accepted under the guard `if X.next_steps`
  X.current_step (Optional)         -> sv_current_step X, only accepted under the guard `X.current_step is not None` or the
                                       truthiness test `X.current_step` (a TieredTime always has at least one tier, so a
                                       present value is truthy - trusted)
  for `sim` itself the two fields are the parameters own_next_steps / own_current_step
  TieredTime + TieredInterval       -> Time.Spec.act (equal to the translated TieredTime.__add__ by Time/Tie.tie_act)
  E.time                            -> thd E
  TieredTime(world.until) + sim.from_world_time -> act [until] from_world_time
  min([*A, *B, ..., E])             -> tmin_ne / zmin_ne (A ++ B ++ ...) E  (the list is never empty: the last element)
  the real-time branch of advance_progress (`if world.rt_factor:`) must be, literally, the two assignments
  rt_passed = perf_counter() - sim.rt_start ; rt_progress = [TieredTime(ceil(rt_passed / world.rt_factor)) + sim.from_world_time]
  and the else branch rt_progress = []: the generated function takes rt : option Z (None = not in real-time mode,
  Some k = ceil(rt_passed / rt_factor)); the wall clock itself is not modelled here (Ext/RT.v).
  sim.progress.set(new_progress) is the result; sim.tqdm.update(...) (the progress bar) is ignored.
Usage: py2coq_sched.py <repo> <outdir>
"""
import ast, os, sys


class Unsupported(Exception):
    pass


def bail(node, why=''):
    raise Unsupported(f"line {getattr(node, 'lineno', '?')}: {type(node).__name__} {why}")


def is_name(e, n): return isinstance(e, ast.Name) and e.id == n
def is_attr(e, obj, attr): return isinstance(e, ast.Attribute) and e.attr == attr and is_name(e.value, obj)


class Ctx:
    def __init__(self, own='sim'):
        self.own = own
        self.loop = None            # name of the ancestor loop variable
        self.dist = None            # name of the distance loop variable
        self.bound = {}             # (obj, field) -> Coq variable bound by a guard
        self.locals = {}            # local list variables -> 'time' | 'Z'


def field(ctx, obj, f):
    """Coq term for obj.f where f in next_steps / current_step"""
    if obj == ctx.own: return {'next_steps': 'own_next_steps', 'current_step': 'own_current_step'}[f]
    if obj == ctx.loop: return {'next_steps': f'(sv_next_steps {obj})', 'current_step': f'(sv_current_step {obj})'}[f]
    raise Unsupported(f'field {f} of unknown object {obj}')


def guard(ctx, c):
    """a condition that binds a value: returns (scrutinee, bound variable, key)"""
    # X.next_steps (non-empty heap)
    if isinstance(c, ast.Attribute) and c.attr == 'next_steps' and isinstance(c.value, ast.Name):
        o = c.value.id
        return f'heap0 {field(ctx, o, "next_steps")}', f'h_{o}', (o, 'next_steps')
    # X.current_step is not None   /   X.current_step (truthiness)
    if isinstance(c, ast.Compare) and len(c.ops) == 1 and isinstance(c.ops[0], ast.IsNot) and isinstance(c.comparators[0], ast.Constant) \
            and c.comparators[0].value is None:
        c = c.left
    if isinstance(c, ast.Attribute) and c.attr == 'current_step' and isinstance(c.value, ast.Name):
        o = c.value.id
        return field(ctx, o, 'current_step'), f'c_{o}', (o, 'current_step')
    bail(c, 'condition')


def texpr(ctx, e):
    """an expression of type TieredTime"""
    if isinstance(e, ast.BinOp) and isinstance(e.op, ast.Add):
        # TieredTime(world.until) + sim.from_world_time
        if isinstance(e.left, ast.Call) and is_name(e.left.func, 'TieredTime') and len(e.left.args) == 1 and not e.left.keywords \
                and is_attr(e.left.args[0], 'world', 'until') and is_attr(e.right, ctx.own, 'from_world_time'):
            return '(act [until] from_world_time)'
        if is_name(e.right, ctx.dist):
            return f'(act {texpr(ctx, e.left)} {ctx.dist})'
        bail(e, 'sum')
    if isinstance(e, ast.Subscript) and isinstance(e.slice, ast.Constant) and e.slice.value == 0 and isinstance(e.value, ast.Attribute) \
            and e.value.attr == 'next_steps' and isinstance(e.value.value, ast.Name):
        key = (e.value.value.id, 'next_steps')
        if key not in ctx.bound: bail(e, 'next_steps[0] outside its guard')
        return ctx.bound[key]
    if isinstance(e, ast.Attribute) and e.attr == 'current_step' and isinstance(e.value, ast.Name):
        key = (e.value.id, 'current_step')
        if key not in ctx.bound: bail(e, 'current_step outside its guard')
        return ctx.bound[key]
    bail(e, 'time expression')


def elem(ctx, e, typ):
    """element of a list of type typ ('time' or 'Z')"""
    if typ == 'time': return texpr(ctx, e)
    if isinstance(e, ast.Attribute) and e.attr == 'time': return f'(thd {texpr(ctx, e.value)})'
    bail(e, 'integer element')


def guarded_singleton(ctx, cond, e, typ):
    scrut, var, key = guard(ctx, cond)
    if key in ctx.bound: bail(cond, 'nested guard on the same field')
    ctx.bound[key] = var
    try:
        body = elem(ctx, e, typ)
    finally:
        del ctx.bound[key]
    return f'(match {scrut} with Some {var} => [{body}] | None => [] end)'


def items_iter(ctx, it, tgt):
    if not (isinstance(it, ast.Call) and isinstance(it.func, ast.Attribute) and it.func.attr == 'items' and not it.args
            and is_attr(it.func.value, ctx.own, 'triggering_ancestors')):
        bail(it, 'iterator')
    if not (isinstance(tgt, ast.Tuple) and len(tgt.elts) == 2 and all(isinstance(x, ast.Name) for x in tgt.elts)): bail(tgt, 'loop variables')
    a, d = tgt.elts[0].id, tgt.elts[1].id
    if a in (ctx.own, 'world', 'until') or d in (ctx.own, 'world', 'until') or a == d: bail(tgt, 'loop variable shadows')
    return a, d


def comprehension(ctx, e, typ):
    """[E for a, d in sim.triggering_ancestors.items() if C]"""
    if not (isinstance(e, ast.ListComp) and len(e.generators) == 1): bail(e, 'comprehension')
    g = e.generators[0]
    if g.is_async or len(g.ifs) != 1: bail(e, 'comprehension filter')
    ctx.loop, ctx.dist = items_iter(ctx, g.iter, g.target)
    try:
        body = guarded_singleton(ctx, g.ifs[0], e.elt, typ)
        return f'(flat_map (fun ad : simview * interval => let ({ctx.loop}, {ctx.dist}) := ad in {body}) anc)'
    finally:
        ctx.loop = ctx.dist = None


def list_expr(ctx, e, typ):
    if isinstance(e, ast.BinOp) and isinstance(e.op, ast.Add):
        return f'({list_expr(ctx, e.left, typ)} ++ {list_expr(ctx, e.right, typ)})'
    if isinstance(e, ast.ListComp): return comprehension(ctx, e, typ)
    if isinstance(e, ast.IfExp):
        # [E] if C else []
        if not (isinstance(e.body, ast.List) and len(e.body.elts) == 1 and isinstance(e.orelse, ast.List) and not e.orelse.elts): bail(e, 'conditional list')
        return guarded_singleton(ctx, e.test, e.body.elts[0], typ)
    if isinstance(e, ast.List) and not e.elts: return '[]'
    bail(e, 'list expression')


def min_call(ctx, e, typ):
    """min([*A, *B, ..., E])"""
    if not (isinstance(e, ast.Call) and is_name(e.func, 'min') and len(e.args) == 1 and not e.keywords and isinstance(e.args[0], ast.List)): bail(e, 'min')
    elts = e.args[0].elts
    if not elts or isinstance(elts[-1], ast.Starred): bail(e, 'min of a possibly empty list')
    parts = []
    for x in elts[:-1]:
        if not (isinstance(x, ast.Starred) and isinstance(x.value, ast.Name) and ctx.locals.get(x.value.id) == typ): bail(x, 'min element')
        parts.append(x.value.id)
    last = elts[-1]
    if typ == 'time': d = texpr(ctx, last)
    else:
        if not (isinstance(last, ast.BinOp) and isinstance(last.op, ast.Add) and is_name(last.left, 'until') and isinstance(last.right, ast.Constant) and last.right.value == 1): bail(last, 'last element')
        d = '(until + 1)'
    return f"({'tmin_ne' if typ == 'time' else 'zmin_ne'} ({' ++ '.join(parts) if parts else '[]'}) {d})"


def strip_doc(body):
    if body and isinstance(body[0], ast.Expr) and isinstance(body[0].value, ast.Constant) and isinstance(body[0].value.value, str): return body[1:]
    return body


def ann_type(a, node):
    s = ast.unparse(a)
    if s == 'List[Time]': return 'Z'
    if s == 'List[TieredTime]': return 'time'
    bail(node, 'annotation ' + s)


def loop_appends(ctx, st, var, typ):
    """for a, d in sim.triggering_ancestors.items(): (if C: var.append(E))+"""
    if st.orelse: bail(st, 'for-else')
    ctx.loop, ctx.dist = items_iter(ctx, st.iter, st.target)
    try:
        parts = []
        for s in st.body:
            if not (isinstance(s, ast.If) and not s.orelse and len(s.body) == 1 and isinstance(s.body[0], ast.Expr)): bail(s, 'loop statement')
            c = s.body[0].value
            if not (isinstance(c, ast.Call) and isinstance(c.func, ast.Attribute) and c.func.attr == 'append' and is_name(c.func.value, var)
                    and len(c.args) == 1 and not c.keywords): bail(s, 'append')
            parts.append(guarded_singleton(ctx, s.test, c.args[0], typ))
        if not parts: bail(st, 'empty loop')
        return f"(flat_map (fun ad : simview * interval => let ({ctx.loop}, {ctx.dist}) := ad in {' ++ '.join(parts)}) anc)"
    finally:
        ctx.loop = ctx.dist = None


RT_THEN = ["rt_passed = perf_counter() - sim.rt_start",
           "rt_progress = [TieredTime(ceil(rt_passed / world.rt_factor)) + sim.from_world_time]"]


def get_max_advance(fn):
    if [a.arg for a in fn.args.args] != ['world', 'sim', 'until']: bail(fn, 'signature')
    ctx = Ctx('sim'); lets = []
    body = strip_doc(fn.body)
    i = 0
    while i < len(body):
        st = body[i]
        if isinstance(st, ast.AnnAssign) and isinstance(st.target, ast.Name) and isinstance(st.value, ast.List) and not st.value.elts:
            # X: List[Time] = []  followed by the loop that fills it
            var = st.target.id; typ = ann_type(st.annotation, st)
            if i + 1 >= len(body) or not isinstance(body[i + 1], ast.For): bail(st, 'empty list without its loop')
            lets.append((var, loop_appends(ctx, body[i + 1], var, typ))); ctx.locals[var] = typ; i += 2; continue
        if isinstance(st, ast.Assign) and len(st.targets) == 1 and isinstance(st.targets[0], ast.Name):
            var = st.targets[0].id
            lets.append((var, list_expr(ctx, st.value, 'Z'))); ctx.locals[var] = 'Z'; i += 1; continue
        if isinstance(st, ast.Return) and i == len(body) - 1:
            v = st.value
            if not (isinstance(v, ast.BinOp) and isinstance(v.op, ast.Sub) and isinstance(v.right, ast.Constant) and v.right.value == 1): bail(st, 'return')
            res = f'({min_call(ctx, v.left, "Z")} - 1)'
            out = "Definition get_max_advance (anc : list (simview * interval)) (own_next_steps : list time) (own_current_step : option time) (until : Z) : Z :=\n"
            for var, t in lets: out += f"  let {var} := {t} in\n"
            return out + f"  {res}.\n"
        bail(st, 'statement')
    bail(fn, 'no return')


def advance_progress(fn):
    if [a.arg for a in fn.args.args] != ['sim', 'world']: bail(fn, 'signature')
    ctx = Ctx('sim'); lets = []; result = None
    for st in strip_doc(fn.body):
        if result is not None:
            # after the result has been stored only the progress bar may be updated
            if ast.unparse(st) != 'sim.tqdm.update(new_progress.time - sim.tqdm.n)': bail(st, 'statement after progress.set')
            continue
        if isinstance(st, ast.AnnAssign) and isinstance(st.target, ast.Name) and st.value is not None:
            var = st.target.id; typ = ann_type(st.annotation, st)
            lets.append((var, list_expr(ctx, st.value, typ))); ctx.locals[var] = typ; continue
        if isinstance(st, ast.Assign) and len(st.targets) == 1 and isinstance(st.targets[0], ast.Name):
            var = st.targets[0].id
            if isinstance(st.value, ast.Call):
                lets.append((var, min_call(ctx, st.value, 'time'))); ctx.locals[var] = 'onetime'; continue
            lets.append((var, list_expr(ctx, st.value, 'time'))); ctx.locals[var] = 'time'; continue
        if isinstance(st, ast.If):
            if not is_attr(st.test, 'world', 'rt_factor'): bail(st, 'if')
            if [ast.unparse(x) for x in st.body] != RT_THEN: bail(st, 'real-time branch differs from the modelled one')
            if [ast.unparse(x) for x in st.orelse] != ['rt_progress = []']: bail(st, 'else branch')
            lets.append(('rt_progress', '(match rt with Some k => [act [k] from_world_time] | None => [] end)')); ctx.locals['rt_progress'] = 'time'; continue
        if isinstance(st, ast.Expr) and ast.unparse(st) == 'sim.progress.set(new_progress)' and ctx.locals.get('new_progress') == 'onetime':
            result = 'new_progress'; continue
        bail(st, 'statement')
    if result is None: bail(fn, 'progress is never set')
    out = "Definition advance_progress (anc : list (simview * interval)) (own_next_steps : list time) (own_current_step : option time) (rt : option Z) (until : Z) (from_world_time : interval) : time :=\n"
    for var, t in lets: out += f"  let {var} := {t} in\n"
    return out + f"  {result}.\n"


# ---------------------------------------------------------------------------------------------------------------------
# progress.py: Progress._triggered_time is translated; _add_trigger, has_reached, has_passed are checked literally (their
# meaning - "the awaited coroutine finishes as soon as _triggered_time is not None, with the default shift of zeros" - is the
# fixed text emitted below)
ADD_TRIGGER = ["if shift is None:\n    shift = TieredInterval(*(0,) * len(self.time))",
               "trigger_spec = (target, shift, needs_to_pass)",
               "triggered_time = self._triggered_time(trigger_spec)",
               "if triggered_time:\n    return triggered_time",
               "future: asyncio.Future[TieredTime] = asyncio.Future()",
               "self._futures.append((trigger_spec, future))",
               "return await future"]


def cmp_time(e, env):
    """A > B / A >= B on TieredTime values (names of env)"""
    if not (isinstance(e, ast.Compare) and len(e.ops) == 1 and isinstance(e.left, ast.Name) and isinstance(e.comparators[0], ast.Name)
            and e.left.id in env and e.comparators[0].id in env): bail(e, 'comparison')
    f = {ast.Gt: 'tgt', ast.GtE: 'tge', ast.Lt: 'tlt', ast.LtE: 'tle'}.get(type(e.ops[0]))
    if f is None: bail(e, 'comparison operator')
    return f'({f} {e.left.id} {e.comparators[0].id})'


def triggered_time(fn):
    if [a.arg for a in fn.args.args] != ['self', 'trigger_spec']: bail(fn, 'signature')
    body = strip_doc(fn.body)
    if len(body) != 5: bail(fn, 'body shape')
    if ast.unparse(body[0]) != 'target, shift, needs_to_pass = trigger_spec': bail(body[0], 'unpacking')
    if ast.unparse(body[1]) != 'time_at_dest = self.time + shift': bail(body[1], 'time at destination')
    env = {'target', 'time_at_dest'}
    conds = []
    for st in body[2:4]:
        if not (isinstance(st, ast.If) and not st.orelse and len(st.body) == 1 and ast.unparse(st.body[0]) == 'return time_at_dest'
                and isinstance(st.test, ast.BoolOp) and isinstance(st.test.op, ast.And) and len(st.test.values) == 2): bail(st, 'branch')
        flag, c = st.test.values
        if is_name(flag, 'needs_to_pass'): fl = 'needs_to_pass'
        elif isinstance(flag, ast.UnaryOp) and isinstance(flag.op, ast.Not) and is_name(flag.operand, 'needs_to_pass'): fl = '(negb needs_to_pass)'
        else: bail(flag, 'flag')
        conds.append(f'{fl} && {cmp_time(c, env)}')
    if ast.unparse(body[4]) != 'return None': bail(body[4], 'fall-through')
    return ("Definition progress_triggered_time (self_time : time) (trigger_spec : time * interval * bool) : option time :=\n"
            "  let '(target, shift, needs_to_pass) := trigger_spec in\n  let time_at_dest := act self_time shift in\n"
            f"  if {conds[0]} then Some time_at_dest else\n  if {conds[1]} then Some time_at_dest else None.\n")


def progress_class(tree):
    cls = [n for n in tree.body if isinstance(n, ast.ClassDef) and n.name == 'Progress']
    if len(cls) != 1: raise Unsupported('class Progress not found')
    fns = {n.name: n for n in cls[0].body if isinstance(n, (ast.FunctionDef, ast.AsyncFunctionDef))}
    for name in ('_triggered_time', '_add_trigger', 'has_reached', 'has_passed'):
        if name not in fns: raise Unsupported(f'Progress.{name} not found')
    out = triggered_time(fns['_triggered_time'])
    at = fns['_add_trigger']
    if [a.arg for a in at.args.args] != ['self', 'target', 'shift', 'needs_to_pass']: bail(at, 'signature')
    if [ast.unparse(x) for x in strip_doc(at.body)] != ADD_TRIGGER: bail(at, '_add_trigger differs from the modelled text')
    out += ("(* _add_trigger (checked literally): the coroutine finishes as soon as _triggered_time is not None; a missing shift is zero in every tier *)\n"
            "Definition progress_add_trigger_ready (self_time : time) (target : time) (shift : option interval) (needs_to_pass : bool) : bool :=\n"
            "  let shift := match shift with Some d => d | None => zero_interval (length self_time) end in\n"
            "  match progress_triggered_time self_time (target, shift, needs_to_pass) with Some _ => true | None => false end.\n")
    for name, flag in (('has_reached', 'False'), ('has_passed', 'True')):
        f = fns[name]
        if [a.arg for a in f.args.args] != ['self', 'target', 'shift'] or [ast.unparse(d) for d in f.args.defaults] != ['None']: bail(f, 'signature')
        b = strip_doc(f.body)
        if len(b) != 1 or ast.unparse(b[0]) != f'return await self._add_trigger(target, shift, {flag})': bail(f, 'body')
        out += (f"Definition progress_{name}_ready (self_time : time) (target : time) (shift : option interval) : bool :=\n"
                f"  progress_add_trigger_ready self_time target shift {flag.lower()}.\n")
    return out


def wait_for_dependencies(fn):
    """futures.append(X.progress.has_passed(next_step, shift=delay)) / has_reached(next_step + adapt) in loops over the three
    tables, the last one under `if lazy_stepping:`, then `await asyncio.gather(*futures)`: ready iff every condition holds"""
    if [a.arg for a in fn.args.args] != ['sim', 'lazy_stepping']: bail(fn, 'signature')
    body = strip_doc(fn.body)
    if len(body) < 3 or ast.unparse(body[0]) != 'futures: List[Coroutine[Any, Any, TieredTime]] = []' or ast.unparse(body[1]) != 'next_step = sim.next_steps[0]': bail(fn, 'prologue')
    if ast.unparse(body[-1]) != 'await asyncio.gather(*futures)': bail(body[-1], 'epilogue')
    TABLES = {'input_delays': 'input_delays', 'successors_to_wait_for': 'successors_to_wait_for', 'successors': 'successors'}

    def loop(st):
        if not (isinstance(st, ast.For) and not st.orelse and len(st.body) == 1): bail(st, 'loop')
        it = st.iter
        if not (isinstance(it, ast.Call) and isinstance(it.func, ast.Attribute) and it.func.attr == 'items' and not it.args
                and isinstance(it.func.value, ast.Attribute) and is_name(it.func.value.value, 'sim') and it.func.value.attr in TABLES): bail(it, 'iterator')
        tgt = st.target
        if not (isinstance(tgt, ast.Tuple) and len(tgt.elts) == 2 and all(isinstance(x, ast.Name) for x in tgt.elts)): bail(tgt, 'loop variables')
        x, d = tgt.elts[0].id, tgt.elts[1].id
        if x in ('sim', 'next_step', 'futures') or d in ('sim', 'next_step', 'futures') or x == d: bail(tgt, 'loop variable shadows')
        c = st.body[0]
        if not (isinstance(c, ast.Expr) and isinstance(c.value, ast.Call) and isinstance(c.value.func, ast.Attribute) and c.value.func.attr == 'append'
                and is_name(c.value.func.value, 'futures') and len(c.value.args) == 1 and not c.value.keywords): bail(c, 'append')
        call = c.value.args[0]
        if not (isinstance(call, ast.Call) and isinstance(call.func, ast.Attribute) and call.func.attr in ('has_passed', 'has_reached')
                and is_attr(call.func.value, x, 'progress') and len(call.args) == 1): bail(call, 'awaited call')
        a = call.args[0]
        if is_name(a, 'next_step'): target = 'next_step'
        elif isinstance(a, ast.BinOp) and isinstance(a.op, ast.Add) and is_name(a.left, 'next_step') and is_name(a.right, d): target = f'(act next_step {d})'
        else: bail(a, 'target')
        if not call.keywords: shift = 'None'
        elif len(call.keywords) == 1 and call.keywords[0].arg == 'shift' and is_name(call.keywords[0].value, d): shift = f'(Some {d})'
        else: bail(call, 'shift')
        return f"map (fun pd : time * interval => let ({x}, {d}) := pd in progress_{call.func.attr}_ready {x} {target} {shift}) {TABLES[it.func.value.attr]}"

    parts = []
    for st in body[2:-1]:
        if isinstance(st, ast.For): parts.append(loop(st)); continue
        if isinstance(st, ast.If) and is_name(st.test, 'lazy_stepping') and not st.orelse and len(st.body) == 1:
            parts.append(f'(if lazy_stepping then {loop(st.body[0])} else [])'); continue
        bail(st, 'statement')
    return ("(* a simulator is seen as the current value of its progress *)\n"
            "Definition wait_for_dependencies_ready (input_delays successors_to_wait_for successors : list (time * interval)) (lazy_stepping : bool) (next_step : time) : bool :=\n"
            f"  forallb (fun b : bool => b) ({' ++ '.join('(' + x + ')' for x in parts)}).\n")


SCHEDULE_STEP = ["if tiered_time in self.next_steps:\n    return tiered_time",
                 "is_earlier = not self.next_steps or tiered_time < self.next_steps[0]",
                 "hq.heappush(self.next_steps, tiered_time)",
                 "if is_earlier:\n    self.newer_step.set()"]


def schedule_step(tree):
    """SimRunner.schedule_step: four statements, translated one by one (membership by ==, the heap as a list whose [0] is the
    minimum, heappush as adding an element, newer_step.set() as raising the flag)"""
    cls = [n for n in tree.body if isinstance(n, ast.ClassDef) and n.name == 'SimRunner']
    if len(cls) != 1: raise Unsupported('class SimRunner not found')
    fns = [n for n in cls[0].body if isinstance(n, ast.FunctionDef) and n.name == 'schedule_step']
    if len(fns) != 1: raise Unsupported('SimRunner.schedule_step not found')
    fn = fns[0]
    if [a.arg for a in fn.args.args] != ['self', 'tiered_time']: bail(fn, 'signature')
    body = strip_doc(fn.body)
    if len(body) != 4: bail(fn, 'body shape')
    # 1. if tiered_time in self.next_steps: return tiered_time
    st = body[0]
    if not (isinstance(st, ast.If) and not st.orelse and len(st.body) == 1 and isinstance(st.body[0], ast.Return)
            and isinstance(st.test, ast.Compare) and len(st.test.ops) == 1 and isinstance(st.test.ops[0], ast.In) and is_name(st.test.left, 'tiered_time')
            and is_attr(st.test.comparators[0], 'self', 'next_steps')): bail(st, 'duplicate test')
    # 2. is_earlier = not self.next_steps or tiered_time < self.next_steps[0]
    st = body[1]
    if ast.unparse(st) != SCHEDULE_STEP[1]: bail(st, 'is_earlier')
    v = st.value
    if not (isinstance(v, ast.BoolOp) and isinstance(v.op, ast.Or) and len(v.values) == 2): bail(st, 'is_earlier')
    # 3. heappush, 4. flag
    if ast.unparse(body[2]) != SCHEDULE_STEP[2]: bail(body[2], 'heappush')
    if ast.unparse(body[3]) != SCHEDULE_STEP[3]: bail(body[3], 'newer_step')
    return ("(* SimRunner.schedule_step: the new queue and the new value of the newer_step flag *)\n"
            "Definition schedule_step (next_steps : list time) (newer_step : bool) (tiered_time : time) : list time * bool :=\n"
            "  if memT tiered_time next_steps then (next_steps, newer_step) else\n"
            "  let is_earlier := match heap0 next_steps with None => true | Some h => tlt tiered_time h end in\n"
            "  (tiered_time :: next_steps, if is_earlier then true else newer_step).\n")


def cmp_int(e, names):
    """comparison between two of the integer expressions in names (unparsed text -> Coq term)"""
    if not (isinstance(e, ast.Compare) and len(e.ops) == 1): bail(e, 'comparison')
    l, r = ast.unparse(e.left), ast.unparse(e.comparators[0])
    if l not in names or r not in names: bail(e, f'comparison of {l} and {r}')
    op = {ast.Lt: '<?', ast.LtE: '<=?', ast.Gt: '>?', ast.GtE: '>=?', ast.Eq: '=?'}.get(type(e.ops[0]))
    if op is None: bail(e, 'comparison operator')
    return f'({names[l]} {op} {names[r]})%Z'


def is_raise_simerror(st):
    return isinstance(st, ast.Raise) and isinstance(st.exc, ast.Call) and ast.unparse(st.exc.func) == 'SimulationError'


def step_reply(fn):
    """scheduler.step after `await sim.step(...)`: the validation of the returned next-step time.  Translated: the nesting of
    the tests and every comparison; checked literally: the statements around them"""
    body = strip_doc(fn.body)
    texts = [ast.unparse(x) for x in body]
    pre = ['assert sim.current_step is not None', "sim.tqdm.set_postfix_str('stepping')", 'sim.is_in_step = True',
           'next_step_time = await sim.step(sim.current_step.time, inputs, max_advance)', 'sim.last_step = sim.current_step', 'sim.is_in_step = False']
    if texts[:6] != pre or len(body) != 8: bail(fn, 'shape of step()')
    names = {'next_step_time': 'v', 'sim.current_step.time': 'cur', 'world.until': 'until'}
    a, b = body[6], body[7]
    if not (isinstance(a, ast.If) and ast.unparse(a.test) == 'next_step_time is not None' and not a.orelse and len(a.body) == 3): bail(a, 'reply test')
    t1, t2, t3 = a.body
    if not (isinstance(t1, ast.If) and ast.unparse(t1.test) == 'not isinstance(next_step_time, int)' and not t1.orelse and len(t1.body) == 1 and is_raise_simerror(t1.body[0])): bail(t1, 'type test')
    if not (isinstance(t2, ast.If) and not t2.orelse and len(t2.body) == 1 and is_raise_simerror(t2.body[0])): bail(t2, 'order test')
    c2 = cmp_int(t2.test, names)
    if not (isinstance(t3, ast.If) and not t3.orelse and [ast.unparse(x) for x in t3.body] ==
            ['next_step_tiered_time = TieredTime(next_step_time) + sim.from_world_time', 'sim.schedule_step(next_step_tiered_time)', 'sim.next_self_step = next_step_tiered_time']): bail(t3, 'scheduling of the self-step')
    c3 = cmp_int(t3.test, names)
    if not (isinstance(b, ast.If) and not b.orelse and len(b.body) == 1 and is_raise_simerror(b.body[0])
            and ast.unparse(b.test) == "sim.type == 'time-based' and next_step_time is None"): bail(b, 'missing-reply test')
    return ("(* scheduler.step, the validation of the reply: RNone = None, RInt v = an int, ROther = anything else *)\n"
            "Definition step_reply (r : reply) (cur until : Z) (time_based : bool) : step_decision :=\n"
            "  match r with\n  | ROther => StepErrType\n"
            f"  | RInt v => if {c2} then StepErrNotLater else StepOk (if {c3} then Some v else None)\n"
            "  | RNone => if time_based then StepErrMissing else StepOk None\n  end.\n")


def output_time_rule(fn):
    """scheduler.get_outputs: the tiered output time and its validation"""
    body = strip_doc(fn.body)
    ifs = [x for x in body if isinstance(x, ast.If) and ast.unparse(x.test) == 'outattr']
    if len(ifs) != 1: bail(fn, 'get_outputs shape')
    blk = ifs[0].body
    texts = [ast.unparse(x) for x in blk]
    try:
        i = texts.index("output_time = data.get('time', sim.last_step.time)")
    except ValueError:
        bail(fn, 'output_time assignment')
    st = blk[i + 1]
    if not (isinstance(st, ast.If) and len(st.body) == 1 and len(st.orelse) == 1 and ast.unparse(st.body[0]) == 'output_tiered_time = sim.current_step'
            and ast.unparse(st.orelse[0]) == 'output_tiered_time = TieredTime(output_time, *[0] * (len(sim.current_step) - 1))'): bail(st, 'tiered output time')
    names = {'output_time': 'ot', 'sim.current_step.time': '(thd cur)', 'sim.last_step.time': 'last'}
    c1 = cmp_int(st.test, names)
    if texts[i + 2] != 'sim.output_time = output_tiered_time': bail(blk[i + 2], 'output_time store')
    chk = blk[i + 3]
    if not (isinstance(chk, ast.If) and not chk.orelse and len(chk.body) == 1 and is_raise_simerror(chk.body[0])): bail(chk, 'output time test')
    c2 = cmp_int(chk.test, names)
    return ("(* scheduler.get_outputs: None = 'Output time is not >= time' *)\n"
            "Definition output_time_rule (ot : Z) (cur : time) (last : Z) : option time :=\n"
            f"  let output_tiered_time := if {c1} then cur else ot :: repeat 0%Z (length cur - 1) in\n"
            f"  if {c2} then None else Some output_tiered_time.\n")


SIM_PROCESS_LOOP = ["sim.tqdm.set_postfix_str('await input')",
                    "await wait_for_dependencies(sim, lazy_stepping)",
                    "sim.current_step = heappop(sim.next_steps)",
                    "<past check>", "<loop guard>",
                    "input_data = get_input_data(world, sim)",
                    "max_advance = get_max_advance(world, sim, until)",
                    "await step(world, sim, input_data, max_advance)",
                    "rt_check(rt_factor, rt_start, rt_strict, sim)",
                    "await get_outputs(world, sim)",
                    "sim.current_step = None",
                    "notify_dependencies(sim, until)",
                    "for isim in world.sims.values():\n    advance_progress(isim, world)",
                    "world.sim_progress = get_progress(world.sims, until)",
                    "world.tqdm.update(get_avg_progress(world.sims, until) - world.tqdm.n)",
                    "if world.use_cache:\n    prune_dataflow_cache(world)"]


def sim_process(fn):
    """the loop of sim_process: the ORDER of its blocks is compared literally with the order the model's events assume (wait,
    pop the earliest step, the two consistency tests, inputs, max_advance, step, real-time check, outputs, notify, advance the
    progress of EVERY simulator, prune); the two tests are translated"""
    body = strip_doc(fn.body)
    tries = [x for x in body if isinstance(x, ast.Try)]
    if len(tries) != 1: bail(fn, 'sim_process shape')
    tb = tries[0].body
    if len(tb) != 3 or ast.unparse(tb[0]) != 'advance_progress(sim, world)' or not isinstance(tb[1], ast.While) \
            or ast.unparse(tb[1].test) != 'await next_step_settled(sim, world)' or ast.unparse(tb[2]) != "sim.tqdm.set_postfix_str('done')": bail(fn, 'sim_process loop')
    loop = tb[1].body
    if len(loop) != len(SIM_PROCESS_LOOP): bail(tb[1], 'number of blocks in the loop')
    past = guard = None
    for st, want in zip(loop, SIM_PROCESS_LOOP):
        if want == '<past check>':
            if not (isinstance(st, ast.If) and not st.orelse and len(st.body) == 1 and is_raise_simerror(st.body[0])): bail(st, 'past check')
            c = st.test
            if not (isinstance(c, ast.Compare) and len(c.ops) == 1 and ast.unparse(c.left) == 'sim.current_step' and ast.unparse(c.comparators[0]) == 'sim.progress.time'): bail(c, 'past check')
            past = {ast.NotEq: 'negb (teq current_step progress)', ast.Eq: 'teq current_step progress'}.get(type(c.ops[0]))
            if past is None: bail(c, 'past check operator')
        elif want == '<loop guard>':
            if not (isinstance(st, ast.If) and not st.orelse and len(st.body) == 1 and is_raise_simerror(st.body[0])): bail(st, 'loop guard')
            c = st.test
            if not (isinstance(c, ast.Call) and is_name(c.func, 'any') and len(c.args) == 1 and isinstance(c.args[0], ast.GeneratorExp)): bail(c, 'loop guard')
            g = c.args[0]
            if len(g.generators) != 1 or g.generators[0].ifs or ast.unparse(g.generators[0].iter) != 'sim.current_step.tiers[1:]' or not isinstance(g.generators[0].target, ast.Name): bail(c, 'loop guard range')
            v = g.generators[0].target.id
            guard = cmp_int(g.elt, {v: 't', 'world.max_loop_iterations': 'max_loop_iterations'})
        elif ast.unparse(st) != want:
            bail(st, f'block differs from the modelled order: expected `{want.splitlines()[0]}`')
    return ("(* scheduler.sim_process: the two consistency tests made when a step is popped (the order of the loop's blocks is checked literally) *)\n"
            f"Definition past_check (current_step progress : time) : bool := {past}.\n"
            f"Definition loop_guard (max_loop_iterations : Z) (current_step : time) : bool := existsb (fun t => {guard}) (tl current_step).\n")


SETTLED_WAIT = ("waiters = [asyncio.create_task(sim.progress.has_reached(await_time)), asyncio.create_task(sim.newer_step.wait())]",
                "try:\n    await asyncio.wait(waiters, return_when='FIRST_COMPLETED', timeout=world.rt_factor)\nfinally:\n    for task in waiters:\n        task.cancel()",
                'sim.newer_step.clear()', 'if world.rt_factor:\n    advance_progress(sim, world)')


def next_step_settled(fn):
    """one round of the while loop of next_step_settled: run is over / the next step is settled / wait (for which time)"""
    body = strip_doc(fn.body)
    if len(body) != 3 or ast.unparse(body[0]) != "sim.tqdm.set_postfix_str('await step')" or ast.unparse(body[2]) != 'return False': bail(fn, 'shape of next_step_settled')
    w = body[1]
    if not (isinstance(w, ast.While) and ast.unparse(w.test) == 'sim.progress.time.time < world.until' and not w.orelse and len(w.body) == 1): bail(w, 'while progress < until')
    i = w.body[0]
    if not (isinstance(i, ast.If) and ast.unparse(i.test) == 'sim.next_steps and sim.next_steps[0] == sim.progress.time' and len(i.body) == 1 and ast.unparse(i.body[0]) == 'return True'): bail(i, 'settled test')
    e = i.orelse
    if len(e) != 6: bail(i, 'waiting branch')
    if ast.unparse(e[0]) != 'await_time = TieredTime(world.until) + sim.from_world_time': bail(e[0], 'await_time')
    if ast.unparse(e[1]) != 'if sim.next_steps and sim.next_steps[0] < await_time:\n    await_time = sim.next_steps[0]': bail(e[1], 'await_time capped by the queue')
    for k, want in enumerate(SETTLED_WAIT):
        if ast.unparse(e[2 + k]) != want: bail(e[2 + k], 'wait for progress or a newer step')
    return ("(* scheduler.next_step_settled: one round of its loop (what is awaited: progress reaching await_time, or the newer_step flag, which is cleared afterwards) *)\n"
            "Definition next_step_settled_round (progress : time) (next_steps : list time) (until : Z) (from_world_time : interval) : settle :=\n"
            "  if negb (thd progress <? until) then SettleDone else\n"
            "  match heap0 next_steps with\n"
            "  | Some head =>\n"
            "      if teq head progress then Settled head else\n"
            "      let await_time := act [until] from_world_time in\n"
            "      let await_time := if tlt head await_time then head else await_time in\n"
            "      SettleWait await_time\n"
            "  | None => SettleWait (act [until] from_world_time)\n"
            "  end.\n")


NOTIFY = ("for (eid, attr), triggered in sim.triggers.items():\n"
          "    if attr in sim.data.get(eid, {}):\n"
          "        for dest_sim, delay in triggered:\n"
          "            step_time = sim.output_time + delay\n"
          "            if until is None or step_time.time < until:\n"
          "                dest_sim.schedule_step(step_time)")


def notify_dependencies(fn):
    """scheduler.notify_dependencies: the loops are walked one by one (the scheduler always passes until, see sim_process)"""
    if [a.arg for a in fn.args.args] != ['sim', 'until']: bail(fn, 'signature')
    body = strip_doc(fn.body)
    if len(body) != 1: bail(fn, 'one loop over sim.triggers')
    lo = body[0]
    if not (isinstance(lo, ast.For) and ast.unparse(lo.target) == '((eid, attr), triggered)' and ast.unparse(lo.iter) == 'sim.triggers.items()' and not lo.orelse and len(lo.body) == 1): bail(lo, 'loop over triggers')
    c = lo.body[0]
    if not (isinstance(c, ast.If) and ast.unparse(c.test) == 'attr in sim.data.get(eid, {})' and not c.orelse and len(c.body) == 1): bail(c, 'was the attribute produced')
    li = c.body[0]
    if not (isinstance(li, ast.For) and ast.unparse(li.target) == '(dest_sim, delay)' and ast.unparse(li.iter) == 'triggered' and not li.orelse and len(li.body) == 2): bail(li, 'loop over the triggered simulators')
    a, g = li.body
    if ast.unparse(a) != 'step_time = sim.output_time + delay': bail(a, 'step time')
    if not (isinstance(g, ast.If) and not g.orelse and len(g.body) == 1 and ast.unparse(g.body[0]) == 'dest_sim.schedule_step(step_time)'): bail(g, 'schedule_step call')
    t = g.test
    if not (isinstance(t, ast.BoolOp) and isinstance(t.op, ast.Or) and len(t.values) == 2 and ast.unparse(t.values[0]) == 'until is None'): bail(g, 'until test')
    cmpz = t.values[1]
    if not (isinstance(cmpz, ast.Compare) and len(cmpz.ops) == 1 and ast.unparse(cmpz.left) == 'step_time.time' and ast.unparse(cmpz.comparators[0]) == 'until'): bail(g, 'until test')
    op = {ast.Lt: '<?', ast.LtE: '<=?', ast.Gt: '>?', ast.GtE: '>=?'}.get(type(cmpz.ops[0]))
    if op is None: bail(g, 'comparison')
    return ("(* scheduler.notify_dependencies (until is always given by sim_process); data = the ports (entity, attribute) present in the reply;\n"
            "   schedule is SimRunner.schedule_step (tie_schedule_step) *)\n"
            "Definition notify_dependencies (until : Z) (triggers : list (nat * list (nat * interval))) (data : list nat) (output_time : time) (s : state) : state :=\n"
            "  fold_left (fun s (p : nat * list (nat * interval)) => let '(port, triggered) := p in\n"
            "    if existsb (Nat.eqb port) data then\n"
            "      fold_left (fun s (dd : nat * interval) => let '(dest_sim, delay) := dd in\n"
            "        let step_time := act output_time delay in\n"
            f"        if (thd step_time {op} until) then schedule s dest_sim step_time else s) triggered s\n"
            "    else s) triggers s.\n")


SCHED_RUN = [
    'world.until = until',
    'if rt_factor is not None and rt_factor <= 0:\n    raise ValueError(\'"rt_factor" is %s but must be > 0"\' % rt_factor)',
    'if rt_factor is not None:\n    rt_factor *= world.time_resolution',
    'world.rt_factor = rt_factor',
    'setup_done_events: List[asyncio.Task[None]] = []',
    "for sim in world.sims.values():\n    sim.tqdm.set_postfix_str('setup')\n    setup_done_events.append(world.loop.create_task(sim.setup_done()))",
    'await asyncio.gather(*setup_done_events)',
    'for sim in world.sims.values():\n    sim.rt_start = perf_counter()',
    'processes: List[asyncio.Task[None]] = []',
    "for sim in world.sims.values():\n    process = world.loop.create_task(sim_process(world, sim, until, rt_factor, rt_strict, lazy_stepping), name=f'Runner for {sim.sid}')\n    sim.task = process\n    processes.append(process)",
    'try:\n    await asyncio.gather(*processes)\nexcept BaseException:\n    for process in processes:\n        process.cancel()\n    await asyncio.gather(*processes, return_exceptions=True)\n    raise',
]
WORLD_RUN = [
    "if hasattr(self, 'until'):\n    raise RuntimeError('Simulation has already been run and can only be run once for a World instance.')",
    'self.ensure_no_dataflow_cycles()',
    'self.cache_triggering_ancestors()',
    'import mosaik._debug as dbg',
    'if self._debug:\n    dbg.enable()',
    'success = False',
]
WORLD_RUN_TRY = ('self.loop.run_until_complete(scheduler.run(self, until, rt_factor, rt_strict, lazy_stepping))', 'success = True')
WORLD_RUN_FINALLY = ['self.shutdown()', 'if self._debug:\n    dbg.disable()']
WORLD_SHUTDOWN = ('if not self.loop.is_closed():\n    errors: List[Exception] = []\n    for sim in self.sims.values():\n        try:\n            self.loop.run_until_complete(sim.stop())\n'
                  '        except Exception as e:\n            errors.append(e)\n    self.loop.stop()\n    self.loop.run_forever()\n    self.loop.close()\n    if errors:\n        raise errors[0]')


def run_skeletons(fn_run, sc_tree):
    """scheduler.run and World.run are compared with the skeleton the model assumes: every simulator is asked setup_done, the
    clock of every simulator starts after all have answered, every simulator gets its own sim_process task with the arguments
    of run, a failure cancels all tasks; World.run does nothing to the tables between the two closures and the scheduler
    (progress bars and log lines are not looked at)"""
    got = [ast.unparse(st) for st in strip_doc(fn_run.body)]
    if got != SCHED_RUN:
        k = next((i for i in range(min(len(got), len(SCHED_RUN))) if got[i] != SCHED_RUN[i]), min(len(got), len(SCHED_RUN)))
        bail(strip_doc(fn_run.body)[k] if k < len(got) else fn_run, 'scheduler.run differs from the skeleton the model assumes')
    cls = [n for n in sc_tree.body if isinstance(n, ast.ClassDef) and n.name == 'World']
    f = [n for n in cls[0].body if isinstance(n, ast.FunctionDef) and n.name == 'run'] if len(cls) == 1 else []
    if len(f) != 1: raise Unsupported('World.run not found')
    f = f[0]
    if [a.arg for a in f.args.args] != ['self', 'until', 'rt_factor', 'rt_strict', 'print_progress', 'lazy_stepping']: bail(f, 'signature of World.run')
    def noise(st):
        t = ast.unparse(st)
        return (('tqdm' in t and not isinstance(st, ast.Try)) or t.startswith('logger.') or t.startswith('max_sim_id_len = ') or t.startswith('until_len = '))
    body = [st for st in strip_doc(f.body) if not noise(st)]
    if [ast.unparse(st) for st in body[:-1]] != WORLD_RUN or not isinstance(body[-1], ast.Try): bail(f, 'World.run differs from the skeleton the model assumes')
    tr = body[-1]
    if tuple(ast.unparse(st) for st in tr.body) != WORLD_RUN_TRY: bail(tr, 'World.run: the call of the scheduler')
    for h in tr.handlers:
        if ast.unparse(h.type) not in ('KeyboardInterrupt', 'RemoteException') or any(not ast.unparse(x).startswith('logger.') for x in h.body): bail(h, 'World.run: exception handler')
    fin = [ast.unparse(st) for st in tr.finalbody if not noise(st) and not ast.unparse(st).startswith('if success:')]
    if fin != WORLD_RUN_FINALLY: bail(tr, 'World.run: clean-up')
    sh = [n for n in cls[0].body if isinstance(n, ast.FunctionDef) and n.name == 'shutdown']
    if len(sh) != 1 or '\n'.join(ast.unparse(st) for st in strip_doc(sh[0].body)) != WORLD_SHUTDOWN: bail(sh[0] if sh else f, 'World.shutdown differs from the text the model assumes')
    return "(* scheduler.run and World.run: compared with the skeleton the model assumes (harness/py2coq_sched.py run_skeletons); nothing is emitted *)\n"


def tt_expr(e):
    """the constructor expressions used when a SimRunner is made and when a step is queued from outside the scheduler"""
    import re
    t = ast.unparse(e)
    m = re.fullmatch(r'TieredTime\(\*\[0\] \* depth\)', t)
    if m: return '(repeat 0 depth)'
    m = re.fullmatch(r'TieredTime\((-?\d+), \*\[0\] \* \(depth - 1\)\)', t)
    if m: return f'(({m.group(1)}) :: repeat 0 (depth - 1))'
    m = re.fullmatch(r'TieredInterval\(\*\[0\] \* depth, cutoff=(\d+), pre_length=(\d+)\)', t)
    if m: return f'(mkI {m.group(2)} {m.group(1)} (repeat 0 depth))'
    m = re.fullmatch(r'TieredTime\((\w+)\) \+ sim\.from_world_time', t)
    if m: return f"(act [{'time_' if m.group(1) == 'time' else m.group(1)}] from_world_time)"        # (`time` is a type name in the model)
    bail(e, 'time expression ' + t)


def runner_setup(sm_tree, sc_tree):
    """SimRunner.__init__ (the four time fields), World.set_initial_event, MosaikRemote.set_event"""
    def cls(tree, name):
        c = [n for n in tree.body if isinstance(n, ast.ClassDef) and n.name == name]
        if len(c) != 1: raise Unsupported(f'class {name} not found')
        return c[0]
    def method(c, name):
        f = [n for n in c.body if isinstance(n, (ast.FunctionDef, ast.AsyncFunctionDef)) and n.name == name]
        if len(f) != 1: raise Unsupported(f'{c.name}.{name} not found')
        return f[0]
    init = method(cls(sm_tree, 'SimRunner'), '__init__')
    found = {}
    for st in init.body:
        if isinstance(st, ast.Assign) and len(st.targets) == 1 and isinstance(st.targets[0], ast.Attribute) and is_name(st.targets[0].value, 'self'):
            a = st.targets[0].attr
            if a in ('last_step', 'from_world_time'):
                if a in found: bail(st, a + ' assigned twice')
                found[a] = tt_expr(st.value)
            elif a == 'progress':
                if a in found: bail(st, 'progress assigned twice')
                if not (isinstance(st.value, ast.Call) and is_name(st.value.func, 'Progress') and len(st.value.args) == 1): bail(st, 'progress')
                found[a] = tt_expr(st.value.args[0])
            elif a == 'next_steps': bail(st, 'next_steps assigned outside the type test')
        elif isinstance(st, ast.If) and any(isinstance(x, ast.Assign) and ast.unparse(x.targets[0]) == 'self.next_steps' for x in ast.walk(st)):
            if 'next_steps' in found: bail(st, 'next_steps assigned twice')
            if ast.unparse(st.test) != "self.type != 'event-based'" or len(st.body) != 1 or len(st.orelse) != 1: bail(st, 'initial queue')
            b, o = st.body[0], st.orelse[0]
            if not (isinstance(b.value, ast.List) and len(b.value.elts) == 1 and ast.unparse(o) == 'self.next_steps = []'): bail(st, 'initial queue')
            found['next_steps'] = f"if negb event_based then [{tt_expr(b.value.elts[0])}] else []"
    for a in ('last_step', 'from_world_time', 'progress', 'next_steps'):
        if a not in found: bail(init, a + ' not found in SimRunner.__init__')
    # any later assignment to these fields inside the class (outside the scheduler's own statements) would escape the model
    sie = method(cls(sc_tree, 'World'), 'set_initial_event')
    if [a.arg for a in sie.args.args] != ['self', 'sid', 'time']: bail(sie, 'signature')
    body = strip_doc(sie.body)
    if len(body) != 2 or ast.unparse(body[0]) != 'sim = self.sims[sid]': bail(sie, 'set_initial_event body')
    st = body[1]
    if not (isinstance(st, ast.Assign) and ast.unparse(st.targets[0]) == 'sim.next_steps' and isinstance(st.value, ast.List) and len(st.value.elts) == 1): bail(st, 'set_initial_event')
    sie_term = f"[{tt_expr(st.value.elts[0])}]"
    se = method(cls(sm_tree, 'MosaikRemote'), 'set_event')
    if [a.arg for a in se.args.args] != ['self', 'event_time']: bail(se, 'signature')
    body = strip_doc(se.body)
    if len(body) != 3 or ast.unparse(body[0]) != 'sim = self.world.sims[self.sid]': bail(se, 'set_event body')
    g, d = body[1], body[2]
    if not (isinstance(g, ast.If) and ast.unparse(g.test) == 'not self.world.rt_factor' and not g.orelse and len(g.body) == 1 and is_raise_simerror(g.body[0])): bail(g, 'real-time test')
    if not (isinstance(d, ast.If) and ast.unparse(d.test) == 'event_time < self.world.until' and len(d.body) == 1 and len(d.orelse) == 1): bail(d, 'event time test')
    call = d.body[0]
    if not (isinstance(call, ast.Expr) and isinstance(call.value, ast.Call) and ast.unparse(call.value.func) == 'sim.schedule_step' and len(call.value.args) == 1): bail(call, 'schedule_step call')
    w = d.orelse[0]
    if not (isinstance(w, ast.Expr) and isinstance(w.value, ast.Call) and ast.unparse(w.value.func) == 'logger.warning'): bail(w, 'warning')
    return ("(* SimRunner.__init__: the time fields of a new runner *)\n"
            f"Definition runner_last_step (depth : nat) : time := {found['last_step']}.\n"
            f"Definition runner_progress (depth : nat) : time := {found['progress']}.\n"
            f"Definition runner_from_world_time (depth : nat) : interval := {found['from_world_time']}.\n"
            f"Definition runner_next_steps (event_based : bool) (depth : nat) : list time := {found['next_steps']}.\n"
            "(* World.set_initial_event: the new queue *)\n"
            f"Definition set_initial_event (from_world_time : interval) (next_steps : list time) (time_ : Z) : list time := {sie_term}.\n"
            "(* MosaikRemote.set_event: None = SimulationError, Some None = ignored with a warning, Some (Some t) = sim.schedule_step(t) *)\n"
            "Definition remote_set_event (rt_on : bool) (event_time until : Z) (from_world_time : interval) : option (option time) :=\n"
            f"  if negb rt_on then None else if event_time <? until then Some (Some {tt_expr(call.value.args[0])}) else Some None.\n")


def main():
    repo, outdir = sys.argv[1], sys.argv[2]
    tree = ast.parse(open(os.path.join(repo, 'mosaik', 'scheduler.py')).read())
    fns = {n.name: n for n in tree.body if isinstance(n, (ast.FunctionDef, ast.AsyncFunctionDef))}
    for name in ('get_max_advance', 'advance_progress', 'wait_for_dependencies', 'step', 'get_outputs', 'sim_process', 'next_step_settled', 'notify_dependencies', 'run'):
        if name not in fns: raise Unsupported(f'function {name} not found')
    ptree = ast.parse(open(os.path.join(repo, 'mosaik', 'progress.py')).read())
    out = ["(* generated by harness/py2coq_sched.py from mosaik/scheduler.py and mosaik/progress.py -- do not edit; regenerated on every run *)",
           "From Coq Require Import ZArith List Bool Arith.", "Import ListNotations.", "From MV Require Import Time.Spec Sched.Timing Sched.GenView.", "Open Scope Z_scope.", "",
           get_max_advance(fns['get_max_advance']), advance_progress(fns['advance_progress']), progress_class(ptree), wait_for_dependencies(fns['wait_for_dependencies']),
           schedule_step(ast.parse(open(os.path.join(repo, 'mosaik', 'simmanager.py')).read())),
           step_reply(fns['step']), output_time_rule(fns['get_outputs']), sim_process(fns['sim_process']), next_step_settled(fns['next_step_settled']), notify_dependencies(fns['notify_dependencies']),
           run_skeletons(fns['run'], ast.parse(open(os.path.join(repo, 'mosaik', 'scenario.py')).read())),
           runner_setup(ast.parse(open(os.path.join(repo, 'mosaik', 'simmanager.py')).read()), ast.parse(open(os.path.join(repo, 'mosaik', 'scenario.py')).read()))]
    text = '\n'.join(out)
    path = os.path.join(outdir, 'SchedulerFns.v')
    if not os.path.exists(path) or open(path).read() != text:
        open(path, 'w').write(text)


if __name__ == '__main__':
    try:
        main()
    except Unsupported as e:
        sys.stderr.write(f'py2coq_sched: unsupported construct: {e}\n'); sys.exit(2)
    except SyntaxError as e:
        sys.stderr.write(f'py2coq_sched: {e}\n'); sys.exit(2)
