"""C10 - lazy stepping. Proof: coq/Props/C10.v. Tie: trace validation - every BEGIN observed with lazy_stepping=True must pass the model lazy guard."""
from .. import common, sched_check, monitors, gen

KINDS = ['guard_lazy', 'tables_succ']
GEN_OPTS = {'groups': True, 'shifts': (1, 2, 2, 3)}


def case_gen(rng, k):
    # a third of the scenarios: producers joined to slow consumers by a single plain / time-shifted / weak connection
    if k % 3 == 1: return gen.gen_lazy_case(rng)
    return gen.gen_case(rng, **GEN_OPTS)


def nontrivial(case, run, val):
    busy = set(); two = False
    for l in run.log:
        if l[0] == 'BEGIN': busy.add(l[1])
        elif l[0] in ('DATA', 'STEP'): busy.discard(l[1])
        if l[0] == 'QUIESCE' and len(busy) >= 2: two = True
    return two and bool(case['edges'])


def features(case, run, val):
    f = ['groups' if any(case['grp']) else 'flat']
    f += sorted({'edge:' + e['kind'] for e in case['edges']})
    if any(e.get('async') for e in case['edges']): f.append('async')
    f.append('outcome:' + val.impl_kind)
    return f



def run(out, info, tier, seed):
    out.trusted_base = common.COMMON_TRUSTED + [
        'modelled by hand: sim_process/next_step_settled/wait_for_dependencies/step/get_outputs/notify_dependencies/advance_progress/'
        'get_max_advance (Sched/Timing.v), World.connect tables and cache_triggering_ancestors (Static/Build.v, Sched/Link.v)',
        'assumed of asyncio: a task runs atomically between suspensions; futures wake their waiters (wake-up liveness is checked by the quiescence test)',
        'theorem premise static_ok (shape facts; the ancestors table dominates every trigger path) is checked per scenario by comparing the model-built tables with the implementation, not yet discharged by a closure theorem']
    out.assumptions = ['simulators are an oracle: any reply sequence (event list); delays that are compared have equal shape (convex group scenarios)']
    sched_check.sched_property(out, info, tier, seed, 'C10', KINDS, monitors.P_C10, gen_opts=GEN_OPTS, case_gen=case_gen,
                               ncases=(220, 2000), variants=[(True, True), (True, False)], nontrivial=nontrivial, features=features,
                               known_match=None, hyp=None,
                               extra_obligations=[('Sched.Inv (invariant preserved by every event)', 'Sched/Inv'),
                                                  ('Sched.Guards / Sched.Final', 'Sched/Final')])
    out.coverage['realtime_lazy_configs'] = realtime_lazy(out)
    out.coverage['nontrivial_rule'] = 'at some quiescent point at least two simulators were in flight (a producer could have run ahead)'


def realtime_lazy(out):
    """lazy stepping also holds in real-time mode: a producer paced by the clock does not begin a step while its (slow,
    really suspending) consumer still has an earlier step outstanding - run on the virtual clock of the C17 harness"""
    from . import c17
    n = 0
    for rt in (0.5, 1.0):
        for dur in (2.5, 4.0):
            cfg = dict(rt=rt, res=1.0, until=6, strict=False, sims=[{}, {'duration': rt * dur}], connect=[(0, 1)])
            r = c17.trial(cfg); n += 1
            ended = set(); bad = []
            for l in r['log']:
                if l[0] == 'END': ended.add((l[1], l[2]))
                if l[0] == 'BEGIN' and l[1] == 'S0':
                    t = l[2]
                    late = [tc for tc in range(0, t) if ('S1', tc) not in ended]
                    if late: bad.append(f'S0 began its step at {t} while its consumer S1 had not finished its step(s) at {late}')
            if r['outcome'] != 'returned': bad.append(f"run failed: {r['outcome']}")
            if bad:
                out.violations.append(dict(kind='realtime_lazy', config=cfg, observed=bad[:3]))
                return n
    return n


def replay(path, out):
    import json
    r = json.load(open(path))
    if r.get('kind') == 'realtime_lazy':
        o = common.Outcome('C10', 'quick', 0); realtime_lazy(o)
        for v in o.violations: print(v['observed'])
        if o.violations: print(f'VIOLATION property=C10 replay={path}')
        return 1 if o.violations else 0
    return sched_check.replay_trace(path, 'C10', monitors.P_C10, KINDS)
