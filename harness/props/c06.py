"""C06 - cycle detection is exact.  Proof (partial): coq/Props/C06.v (the reported cycle is a real zero-delay closed walk).
Tie + decision of the full statement: the implementation's verdict (World.run) = the extracted model's verdict
(Static/Cycle.v) = the independent specification spec_unresolved, on all multigraphs up to a size (thorough) or a sample."""
import itertools, json, random, re
from .. import common, simlib, tracelib


def common_len(a, b):
    n = 0
    for x, y in zip(a, b):
        if x != y: break
        n += 1
    return n


def spec_unresolved(n, grp, edges):
    """exists a simple cycle of the connection multigraph that no connection on it resolves"""
    res = []
    # an async_requests connection contributes, beside its data connection, a zero-delay edge of its own
    # ('A' = async_requests without any data connection: only that zero-delay edge)
    edges = [(a, b, k.rstrip('a')) for a, b, k in edges if k != 'A'] + [(a, b, 'p') for a, b, k in edges if k.endswith('a') or k == 'A']
    def check(cyc):
        nodes = {edges[e][0] for e in cyc}
        for e in cyc:
            a, b, k = edges[e]
            if k == 'ts': return True
            if k == 'w':
                G = tuple(grp[a][:common_len(grp[a], grp[b])])
                if all(tuple(grp[x][:len(G)]) == G for x in nodes): return True
        return False
    def dfs(start, cur, used, path):
        for ei, (a, b, k) in enumerate(edges):
            if a != cur: continue
            if b == start:
                if not check(path + [ei]): res.append(path + [ei])
            elif b not in used and b > start:
                dfs(start, b, used | {b}, path + [ei])
    for s in range(n): dfs(s, s, {s}, [])
    return bool(res)


def make_case(n, grp, edges):
    es = [dict(a=a, b=b, sa='eo', da='ti', kind=k.rstrip('a') if k != 'A' else 'p', shift=1 if k.rstrip('a') == 'ts' else 0, init=False) for a, b, k in edges]
    for e, (a, b, k) in zip(es, edges):
        if k.endswith('a'): e['async'] = True
        if k == 'A': e['pure_async'] = True
    return dict(n=n, types=['hybrid'] * n, grp=[list(g) for g in grp], edges=es, until=1,
                beh=[{'type': 'hybrid', 'self_steps': {}, 'outputs': {}} for _ in range(n)], init=[], maxloop=100)


def impl_verdict(case):
    # (simlib.run_case has a 30 s watchdog; a scenario that does not come back is tried a second time)
    r = _impl_verdict(case)
    if r[0] == 'hang': r = _impl_verdict(case)
    return r


def _impl_verdict(case):
    run = simlib.run_case(case, instant='all')
    began = any(l[0] == 'BEGIN' for l in run.log)
    if run.build_error is not None:
        return 'connect:' + type(run.build_error).__name__, None, began
    oc = run.outcome
    if oc.startswith('Hang:'): return 'hang', None, began
    if oc.startswith('ScenarioError') and 'contains cycles' in oc:
        path = re.findall(r"sid='(S\d+)'", str(run.exc))
        return 'rejected', path, began
    if oc.startswith('AssertionError') and 'incomparable' in str(run.exc):
        return 'incomparable', str(run.exc), began
    if oc == 'ok': return 'accepted', None, began
    return 'other:' + oc[:60], None, began


def parse_interval(txt):
    """TieredInterval.__repr__: add tiers ':'-joined | ext tiers ':'-joined (pre_length)"""
    m = re.fullmatch(r"([-\d:]*)\|([-\d:]*)\((\d+)\)", txt.strip())
    if not m: return None
    add = [int(x) for x in m.group(1).split(':') if x != '']; ext = [int(x) for x in m.group(2).split(':') if x != '']
    return (int(m.group(3)), len(add), add + ext)


def genuinely_incomparable(msg, model):
    """F9 is about delays that ARE incomparable (a tier that is additive in the smaller-looking one and extending in the
    other); an 'incomparable' assertion for a pair that the specification's order (Time/Spec.v ilt, proved equal to the
    translated __lt__) does compare is something else.  Without the model or a parsable message the answer is no."""
    m = re.search(r"(\S+) and (\S+) are incomparable", msg or '')
    if not m or model is None: return False
    a, b = parse_interval(m.group(1)), parse_interval(m.group(2))
    if a is None or b is None: return False
    f = lambda i: f'{i[0]} {i[1]} {len(i[2])} ' + ' '.join(map(str, i[2]))
    return model.ask(f's_ilt {f(a)} {f(b)}') == 'assert'


def model_verdict(case, model, start_order):
    TOK = {}
    L, idx = tracelib.scenario_lines(case, True, True, lambda x: TOK.setdefault(x, len(TOK) + 1), start_order)
    for l in L:
        model.ask(l)
    return model.ask('B_CYCLE'), idx


def run(out, info, tier, seed):
    rng = random.Random(seed)
    out.checker_cmd = 'make -C coq && coqc -Q coq MV coq/Props/C06.v'
    out.trusted_base = common.COMMON_TRUSTED + ['modelled by hand: ensure_no_dataflow_cycles (Static/Cycle.v) on the input delays built by Static/Build.v; '
                                                'CPython set.pop() order is modelled as a FIFO worklist (verdicts are order independent for convex scenarios)']
    out.assumptions = ['non-convex scenarios (a cycle leaves and re-enters a group) can trip the incomparable-delays assertion: known finding F9']
    obl, log, broken = common.check_props_file('C06', info)
    for o in obl: out.add_obligation(o['name'], o['ok'], o['assumptions'])
    out.add_obligation('Static.CycleP (closure invariant: every stored path is a walk composing to the stored delay)', info.vo_ok('Static/CycleP'), '')
    out.add_obligation('Static.CycleC (worklist invariant: completeness for uniform delay shapes)', info.vo_ok('Static/CycleC'), '')
    out.add_obligation('Time.Tie.tie_update_min (scenario.update_min, regenerated from the source, is the upd_min of the modelled closure)',
                       info.translator_ok and info.vo_ok('Time/Tie'), 'closed under the global context (Time/Tie.v)')
    bad = common.hygiene()
    out.add_obligation('hygiene: no Admitted/admit/Axiom/Parameter/Unset Guard in coq/', not bad, '; '.join(bad[:5]))
    if broken: out.notes.append('broken files: ' + ', '.join(broken) + '\n' + log[-1500:])
    model = common.Model() if info.driver_ok else None
    if model is None: out.add_obligation('correspondence: extracted model available', False, info.driver_msg[-300:])
    kf = {f['id']: f for f in common.known_findings('C06')}
    places = [(), (0,), (1,), (0, 0), (0, 1)]
    space = []
    maxn, maxm = (3, 3)
    for n in range(1, maxn + 1):
        pairs = [(a, b, k) for a in range(n) for b in range(n) for k in ('p', 'w', 'ts')]
        for grp in itertools.product(places, repeat=n):
            for m in range(1, maxm + 1):
                for edges in itertools.combinations(pairs, m):
                    if any(k == 'w' and common_len(grp[a], grp[b]) == 0 for a, b, k in edges): continue
                    space.append((n, grp, edges))
    exhaustive = tier == 'thorough'
    cases = space if exhaustive else rng.sample(space, 2500)
    # bigger random graphs as well
    extra = []
    for _ in range(300 if not exhaustive else 3000):
        n = rng.randint(3, 5); grp = [rng.choice(places) for _ in range(n)]
        edges = []
        for _ in range(rng.randint(2, 7)):
            a, b = rng.randrange(n), rng.randrange(n)
            k = rng.choice(['p', 'p', 'w', 'ts', 'pa', 'tsa', 'wa'])
            if k.startswith('w') and common_len(grp[a], grp[b]) == 0: k = 'p'
            if k.endswith('a') and a == b: k = k[:-1]
            edges.append((a, b, k))
        extra.append((n, tuple(grp), tuple(edges)))
    # all multigraphs over two or three simulators with up to three connections, async_requests variants included, in a
    # flat placement and in one group (connection order matters for the delay an async connection leaves behind)
    akinds = ('p', 'w', 'ts', 'pa', 'wa', 'tsa')
    aspace = []
    for n in (2, 3):
        pairs = [(a, b, k) for a in range(n) for b in range(n) for k in akinds if not (k.endswith('a') and a == b)]
        for grp in (tuple(() for _ in range(n)), tuple((0,) for _ in range(n))):
            for m in (2, 3):
                for edges in itertools.permutations(pairs, m) if n == 2 and m == 2 else itertools.combinations(pairs, m):
                    if not any(k.endswith('a') for _, _, k in edges): continue
                    if any(k.startswith('w') and not grp[a] for a, b, k in edges): continue
                    aspace.append((n, grp, edges))
    extra += aspace if exhaustive else rng.sample(aspace, 600)
    # cycles through two groups (siblings or nested): inside each group a weak connection and, often, a plain connection
    # back (an admissible weak-resolved 2-cycle), the groups linked by cross connections in both directions, so that long
    # cycles exist which no weak connection resolves and parallel paths with equal tiers but different cutoff compete
    for _ in range(250 if not exhaustive else 4000):
        G, H = rng.choice([((0,), (1,)), ((0, 0), (0, 1)), ((0,), (0, 0)), ((0,), (1,))])
        ng, nh = rng.choice([2, 2, 3]), rng.choice([1, 2, 2])
        top = rng.choice([0, 0, 1])
        n = ng + nh + top
        grp = [G] * ng + [H] * nh + [()] * top
        gm, hm, tm = list(range(ng)), list(range(ng, ng + nh)), list(range(ng + nh, n))
        edges = []
        for mem in (gm, hm):
            if len(mem) >= 2:
                x, y = rng.sample(mem, 2)
                edges.append((x, y, 'w'))
                if rng.random() < 0.7: edges.append((y, x, 'p'))
                if len(mem) == 3 and rng.random() < 0.5:
                    z = [m_ for m_ in mem if m_ not in (x, y)][0]
                    edges.append((y, z, rng.choice(['p', 'w']))); edges.append((z, x, rng.choice(['p', 'p', 'w'])))
            elif rng.random() < 0.3:
                edges.append((mem[0], mem[0], rng.choice(['w', 'ts'])))
        weak_cross = common_len(G, H) > 0
        for _k in range(rng.randint(1, 2)):
            edges.append((rng.choice(gm), rng.choice(hm), rng.choice(['p', 'p', 'p', 'ts'] + (['w'] if weak_cross else []))))
            edges.append((rng.choice(hm), rng.choice(gm), rng.choice(['p', 'p', 'p', 'ts'] + (['w'] if weak_cross else []))))
        for t_ in tm:
            edges.append((rng.choice(gm + hm), t_, 'p'))
            if rng.random() < 0.6: edges.append((t_, rng.choice(gm + hm), rng.choice(['p', 'ts'])))
        rng.shuffle(edges)
        extra.append((n, tuple(grp), tuple(edges)))
    # async_requests without data connections ('A'): rings and chains of agents, alone or next to ordinary connections
    # (the model has no such connection: these cases are decided by the independent specification only)
    for _ in range(200 if not exhaustive else 2500):
        n = rng.randint(2, 4); grp = [rng.choice([(), (), (0,), (0, 0)]) for _ in range(n)]
        edges = []
        for _k in range(rng.randint(2, 5)):
            a, b = rng.randrange(n), rng.randrange(n)
            if a == b: continue
            k = rng.choice(['A', 'A', 'A', 'p', 'ts', 'pa'])
            if not any(x[0] == a and x[1] == b and x[2] == 'A' for x in edges) or k != 'A': edges.append((a, b, k))
        if edges: extra.append((n, tuple(grp), tuple(edges)))
    extra.append((2, ((), ()), ((0, 1, 'A'), (1, 0, 'A'))))
    extra.append((3, ((0,), (0, 0), (0,)), ((0, 1, 'A'), (1, 2, 'A'), (2, 0, 'A'))))
    # two sibling groups, each with a weak connection and a plain connection back, linked into one long cycle
    extra.append((4, ((0,), (0,), (1,), (1,)), ((0, 1, 'w'), (1, 0, 'p'), (1, 2, 'p'), (2, 3, 'w'), (3, 2, 'p'), (3, 0, 'p'))))
    cases = cases + extra
    # witness of known finding F9 (non-convex: P -> R -> S leaves group G and comes back; weak edges inside G)
    cases.append((5, ((0,), (0,), (0,), (0,), ()), ((0, 4, 'p'), (4, 1, 'p'), (1, 3, 'w'), (3, 2, 'w'), (0, 2, 'w'))))
    violations, mism, known, hangs = [], [], [], []
    hist = {}; nontriv = set(); n_eval = 0
    for (n, grp, edges) in cases:
        case = make_case(n, grp, edges)
        n_eval += 1
        iv, ipath, began = impl_verdict(case)
        spec = spec_unresolved(n, grp, list(edges))
        hist[iv.split(':')[0]] = hist.get(iv.split(':')[0], 0) + 1
        conv = tracelib.convex(case)
        desc = dict(kind='cycle', n=n, groups=[list(g) for g in grp], edges=[list(e) for e in edges])
        if any(a != b for a, b, k in edges) and len(edges) >= 2: nontriv.add(json.dumps(desc))
        # monitor: the statement itself
        if iv == 'hang' and not conv and 'F9h' in kf:
            hangs.append(desc)
        elif iv == 'incomparable':
            if not conv and 'F9' in kf and genuinely_incomparable(ipath, model): known.append(desc)
            else: violations.append(dict(desc, expected='rejected' if spec else 'accepted', observed=iv))
        elif iv not in ('accepted', 'rejected'):
            violations.append(dict(desc, expected='rejected' if spec else 'accepted', observed=iv))
        elif (iv == 'rejected') != spec:
            violations.append(dict(desc, expected='rejected' if spec else 'accepted', observed=iv))
        elif iv == 'rejected' and began:
            violations.append(dict(desc, expected='rejection before any step', observed='a simulator was stepped'))
        # correspondence with the model
        if model is not None and iv in ('accepted', 'rejected', 'incomparable') and not any(k == 'A' for _, _, k in edges):
            start_order = sorted([f'S{k}' for k in range(n)], key=lambda s: (len(grp[int(s[1:])]) > 0, grp[int(s[1:])], int(s[1:])))
            mv, idx = model_verdict(case, model, start_order)
            if 'roworder_mismatch_cycle' in mv and conv:
                # the regenerated check on the table in normal form (the hypothesis of its tie) and the model's check on the table as
                # the model builds it give different verdicts
                mism.append(dict(desc, model=mv, note='regenerated check on the normal-form table and model check on the model-built table disagree'))
            mv = mv.replace(' roworder_mismatch_cycle', '')
            if mv.split()[0] != iv:
                # (non-convex scenarios: mixed-cutoff delays are incomparable, F9, and the closure - also the modelled one,
                #  which then runs out of fuel - may replace two such delays by each other for ever, F9h)
                if not (not conv and ('incomparable' in (mv, iv) or mv.split()[0] == 'fuel' or iv == 'hang')):
                    mism.append(dict(desc, model=mv, implementation=iv))
            elif iv == 'accepted' and len({tuple(g) for g in grp}) == 1:
                # all simulators in one group (or none): the premises of the completeness theorem must hold
                if 'complete' in mv: hist['accepted, completeness theorem applies'] = hist.get('accepted, completeness theorem applies', 0) + 1
                else: mism.append(dict(desc, model=mv, implementation=iv, note='premises of C06_accepted_cycles_are_resolved (wk_indel, uni_indel, cov_indel) not established'))
            elif iv == 'rejected':
                # the implementation's own path must be a zero-delay closed walk according to the model
                p = [idx[s] for s in ipath]
                w = model.ask(f"B_WALK {len(p)} {' '.join(map(str, p))}")
                if w != 'zero' or p[0] != p[-1]:
                    violations.append(dict(desc, expected='reported cycle is a closed walk with zero delay', observed=f'{ipath}: {w}'))
    if model is not None:
        model.close()
        out.add_obligation('correspondence: extracted cycle_check = World.run verdict (and the reported path is a zero-delay closed walk)', not mism, f'{n_eval} scenarios')
        if mism: out.notes.append('first disagreements: ' + json.dumps(mism[:3]))
    for v in violations[:1]: out.violations.append(v)
    if hangs and 'F9h' in kf:
        out.known_hits.append((kf['F9h'], f"the cycle check did not return within 30 s (twice) on a non-convex scenario, e.g. {json.dumps(hangs[0])[:300]}"))
    if known and 'F9' in kf:
        out.known_hits.append((kf['F9'], f"AssertionError 'incomparable' from the cycle check on a non-convex scenario, e.g. {json.dumps(known[0])[:200]} ({len(known)} in scope)"))
    out.coverage = {'evaluations': n_eval, 'distinct_nontrivial': len(nontriv), 'exhaustive': exhaustive, 'traces_validated_against_impl': n_eval if model else 0,
                    'rule': f'all connection multigraphs with <= {maxn} simulators and <= {maxm} connections over {{plain, weak, time-shifted}} (incl. self-connections, parallel connections) x '
                            f'all placements in a group tree with nested and sibling groups = {len(space)} scenarios (thorough: all; quick: seeded sample of 2500) plus random graphs with 3-5 simulators and up to 7 connections; '
                            'non-trivial = at least two connections, not all self-connections',
                    'samples': [dict(n=c[0], groups=[list(g) for g in c[1]], edges=[list(e) for e in c[2]]) for c in cases[:2]],
                    'verdict_histogram': hist, 'monitor_failures': len(violations), 'correspondence_mismatches': len(mism), 'known_F9_cases': len(known)}


def replay(path, out):
    r = json.load(open(path))
    if r.get('kind') != 'cycle':
        print(json.dumps(r, indent=1)[:3000]); print('re-run ./check C06'); return 1
    grp = [tuple(g) for g in r['groups']]; edges = [tuple(e) for e in r['edges']]
    iv, ipath, began = impl_verdict(make_case(r['n'], grp, edges))
    spec = spec_unresolved(r['n'], grp, edges)
    print('implementation:', iv, ipath, 'stepped:', began, '| specification says unresolved cycle exists:', spec)
    bad = (iv not in ('accepted', 'rejected')) or ((iv == 'rejected') != spec) or (iv == 'rejected' and began)
    if bad: print(f'VIOLATION property=C06 replay={path}')
    return 1 if bad else 0
