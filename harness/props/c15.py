"""C15 - API version adaptation.  Proof: coq/Props/C15.v.  Tie: correspondence of the extracted model (start decision, adapters,
delivered requests, type default) with simmanager.start + the adapter chain, using in-process stub simulators over a version grid."""
import itertools, json, random, warnings
warnings.simplefilter('ignore')
from .. import common
import mosaik
from mosaik import simmanager
from mosaik.exceptions import ScenarioError
from harness import c15sims
from harness.c15sims import CALLS, META

VERSIONS = ['1', '2', '2.0', '2.1', '2.1.0', '2.1.3', '2.2', '2.2.1', '2.9', '2.10', '3', '3.0', '3.0.1', '3.7', '4', '4.1', '10', None]


def ver(s): return [int(x) for x in s.split('.')]


def one(v, explicit, cls, has_type):
    CALLS.clear(); META.clear(); META.update({'models': {}})
    if v is not None: META['api_version'] = v
    if has_type: META['type'] = 'event-based'
    cfg = {'python': f'harness.c15sims:{cls}'}
    vv = ver(v) if v is not None else [1]
    if explicit == 'same': cfg['api_version'] = v if v is not None else '1'
    if explicit == 'other': cfg['api_version'] = '2.5'
    if explicit == 'prefix': cfg['api_version'] = '.'.join((v or '1').split('.')[:-1]) or (v or '1')     # fewer components (same if only one)
    if explicit == 'longer': cfg['api_version'] = (v or '1') + '.0'                                       # one more component
    ev = None if explicit is None else ver(cfg['api_version'])
    w = mosaik.World({'X': cfg}, skip_greetings=True)
    obs = {}
    try:
        try:
            proxy = w.loop.run_until_complete(simmanager.start(w, 'X', 'X-0', 1.0, {})); obs['start'] = 'started'
        except ScenarioError:
            obs['start'] = 'rejected'
        except BaseException as e:
            obs['start'] = 'crash:' + type(e).__name__
        if obs['start'] == 'started':
            w.loop.run_until_complete(proxy.send(['setup_done', (), {}]))
            w.loop.run_until_complete(proxy.send(['step', (0, {}, 5), {}]))
            w.loop.run_until_complete(proxy.send(['get_data', ({},), {}]))
            # a step in which the simulator itself fails: the request reaches it once, in the form valid for its version,
            # and its own error is what the caller sees
            try:
                w.loop.run_until_complete(proxy.send(['step', (7, {}, 9), {}])); obs['error'] = 'none'
            except BaseException as e:
                obs['error'] = f'{type(e).__name__}:{e}'
            obs['calls'] = list(CALLS)
            obs['type'] = proxy.meta.get('type', 'absent')
    finally:
        w.shutdown()
    return vv, ev, obs


def twice(explicit, versions, cls, same_world):
    """the SAME SimConfig entry (the user's own dict, with an explicit api_version) started several times - further instances in
    one world, or a second world built from the same dict (a parameter sweep): every start is judged by the configured
    version, and the user's dict is left as it was.  Returns None or a violation record."""
    cfg = {'X': {'python': f'harness.c15sims:{cls}', 'api_version': explicit}}
    before = json.dumps(cfg, sort_keys=True)
    seen = []
    w = None
    try:
        for k, v in enumerate(versions):
            CALLS.clear(); META.clear(); META.update({'models': {}, 'api_version': v})
            if w is None or not same_world:
                if w is not None: w.shutdown()
                w = mosaik.World(cfg, skip_greetings=True)
            try:
                w.loop.run_until_complete(simmanager.start(w, 'X', f'X-{k}', 1.0, {})); got = 'started'
            except ScenarioError:
                got = 'rejected'
            except BaseException as e:
                got = 'crash:' + type(e).__name__
            want = spec(ver(v), ver(explicit), cls == 'New', False)['start']
            seen.append((v, got))
            if got != want:
                return dict(kind='twice', explicit=explicit, versions=versions, signatures=cls, same_world=same_world,
                            observed=[f"SimConfig entry with api_version {explicit!r} started {len(versions)} times ({'one world' if same_world else 'one world each'}), announcing {versions}: "
                                      f"start number {k + 1} (announcing {v}) was {got}, expected {want}; all starts: {seen}"])
        if json.dumps(cfg, sort_keys=True) != before:
            return dict(kind='twice', explicit=explicit, versions=versions, signatures=cls, same_world=same_world,
                        observed=[f'the SimConfig dict of the caller was changed by the starts: {before} -> {json.dumps(cfg, sort_keys=True)}'])
    finally:
        if w is not None: w.shutdown()
    return None


TWICE = [('2.2', ['2.2', '2.0'], 'Old'), ('2.2', ['2.2', '2.2', '3.0'], 'Old'), ('3.0', ['3.0', '2.2'], 'New'), ('2.1', ['2.1', '2.1.0', '2.1'], 'Old'), ('3.0', ['2.0', '3.0', '3.1'], 'New')]


def spec(vv, ev, compliant, has_type):
    """the statement of C15 in major.minor terms"""
    major = vv[0]; minor = vv[1] if len(vv) > 1 else 0
    accepted = major < 4 and (ev is None or ev == vv) and not ((not compliant) and major >= 3)
    if not accepted: return {'start': 'rejected'}
    calls = [('init', compliant)]
    if (major, minor) >= (2, 2): calls.append(('setup_done',))
    calls.append(('step', 3 if major >= 3 else 2))
    calls.append(('get_data', 0))
    calls.append(('step', 3 if major >= 3 else 2))
    typ = 'event-based' if has_type else ('time-based' if major < 3 else 'absent')
    return {'start': 'started', 'calls': calls, 'type': typ, 'error': 'ValueError:boom at 7'}


def run(out, info, tier, seed):
    out.checker_cmd = 'make -C coq && coqc -Q coq MV coq/Props/C15.v'
    out.trusted_base = common.COMMON_TRUSTED + ['regenerated from the source and tied to the model (harness/py2coq_adapt.py, Ext/AdaptTie.v): init_and_get_adapter, both adapters, LocalProxy.init compliance gate; compared literally: extract_version, RemoteProxy.init, Adapter.send; '
                                                'check_api_compliance itself (mosaik_api_v3), the parsing of version strings and the remote transport are not modelled']
    obl, log, broken = common.check_props_file('C15', info)
    for o in obl: out.add_obligation(o['name'], o['ok'], o['assumptions'])
    bad = common.hygiene()
    out.add_obligation('hygiene: no Admitted/admit/Axiom/Parameter/Unset Guard in coq/', not bad, '; '.join(bad[:5]))
    if broken: out.notes.append('broken files: ' + ', '.join(broken) + '\n' + log[-1500:])
    model = common.Model() if info.driver_ok else None
    if model is None: out.add_obligation('correspondence: extracted model available', False, info.driver_msg[-300:])
    violations, mism = [], []; n = 0; nontriv = 0; samples = []
    for v, explicit, cls, has_type in itertools.product(VERSIONS, (None, 'same', 'other', 'prefix', 'longer'), ('New', 'Old'), (True, False)):
        n += 1
        vv, ev, obs = one(v, explicit, cls, has_type)
        compliant = cls == 'New'
        want = spec(vv, ev, compliant, has_type)
        d = dict(kind='start', version=v, explicit=explicit, signatures=cls, has_type=has_type)
        if obs != want:
            violations.append(dict(d, expected=want, observed=obs))
        if obs.get('start') == 'started' and (vv[0] < 3 or len(vv) > 2): nontriv += 1
        if len(samples) < 2 and obs.get('start') == 'started': samples.append(dict(d, observed=obs))
        if model is not None:
            so = lambda l: '0' if l is None else f"1 {len(l)} {' '.join(map(str, l))}"
            r = model.ask(f"X_START {len(vv)} {' '.join(map(str, vv))} {so(ev)} 1 {int(compliant)}")
            if r.split()[0] != obs['start'].split(':')[0]:
                mism.append(dict(d, model=r, implementation=obs)); continue
            if r.startswith('started'):
                _, a, b, c = r.split()
                mcalls = [('init', a == '1')]
                x = model.ask(f"X_DELIVER {b} {c} setup_done")
                if x != 'dropped': mcalls.append(('setup_done',))
                x = model.ask(f"X_DELIVER {b} {c} step 3"); mcalls.append(('step', int(x.split()[1])))
                x = model.ask(f"X_DELIVER {b} {c} other 7")
                if x == 'other 7': mcalls.append(('get_data', 0))
                x = model.ask(f"X_DELIVER {b} {c} step 3"); mcalls.append(('step', int(x.split()[1])))
                t = model.ask(f"X_TYPE {c} {'1 1' if has_type else '0'}")
                mtyp = {'absent': 'absent', '0': 'time-based', '1': 'event-based'}[t]
                if mcalls != obs['calls'] or mtyp != obs['type']:
                    mism.append(dict(d, model=dict(calls=mcalls, type=mtyp), implementation=obs))
    # two different classes that share their module and qualified name (factory-made): each is judged by its OWN signatures
    for v, cls in (('3.0', 'TWIN_NEW'), ('2.0', 'TWIN_OLD'), ('3.0', 'TWIN_OLD'), ('2.2', 'TWIN_NEW')):
        n += 1
        vv, ev, obs = one(v, None, cls, True)
        want = spec(vv, ev, cls == 'TWIN_NEW', True)
        if obs != want:
            violations.append(dict(kind='start', version=v, explicit=None, signatures=cls, has_type=True, expected=want, observed=obs,
                                   note='started after a different class of the same qualified name'))
    ntw = 0
    for explicit, versions, cls in TWICE:
        for same_world in (True, False):
            n += 1; ntw += 1
            v = twice(explicit, versions, cls, same_world)
            if v: violations.append(v)
    if model is not None:
        model.close()
        out.add_obligation('correspondence: extracted Adapters model = simmanager.start + adapter chain', not mism, f'{n} configurations')
        if mism: out.notes.append('first disagreements: ' + json.dumps(mism[:3], default=str))
    for v in violations[:1]: out.violations.append(v)
    out.coverage = {'evaluations': n, 'distinct_nontrivial': nontriv, 'exhaustive': True, 'traces_validated_against_impl': n if model else 0,
                    'rule': f'version strings {VERSIONS} (None = api_version absent) x explicit api_version {{none, same, different, a proper prefix of the announced one, the announced one with one more component}} x stub with {{v3, pre-v3}} signatures x type given or not, in-process; '
                            'for accepted ones the requests setup_done/step/get_data and a step in which the simulator raises a ValueError are sent through the adapter chain and what reaches the simulator is recorded; non-trivial = accepted with an adapter or a patch level; one SimConfig entry with an explicit api_version started two or three times in one world and in one world each, announcing different versions',
                    'samples': samples, 'monitor_failures': len(violations), 'correspondence_mismatches': len(mism)}


def replay(path, out):
    r = json.load(open(path))
    if r.get('kind') == 'twice':
        v = twice(r['explicit'], r['versions'], r['signatures'], r['same_world'])
        print(v['observed'] if v else 'every start was judged by the configured version')
        if v: print(f'VIOLATION property=C15 replay={path}')
        return 1 if v else 0
    if r.get('kind') != 'start':
        print(json.dumps(r, indent=1)[:2000]); print('re-run ./check C15'); return 1
    if r.get('note'):
        # the failure depends on what was started before in the same process: replay the sequence of the check
        for v, cls in (('3.0', 'TWIN_NEW'), ('2.0', 'TWIN_OLD'), ('3.0', 'TWIN_OLD'), ('2.2', 'TWIN_NEW')):
            vv, ev, obs = one(v, None, cls, True); want = spec(vv, ev, cls == 'TWIN_NEW', True)
            print(cls, v, 'observed:', obs, 'expected:', want)
            if obs != want:
                print(f'VIOLATION property=C15 replay={path}'); return 1
        return 0
    vv, ev, obs = one(r['version'], r['explicit'], r['signatures'], r['has_type'])
    want = spec(vv, ev, r['signatures'] in ('New', 'TWIN_NEW'), r['has_type'])
    print('observed:', obs); print('expected:', want)
    if obs != want: print(f'VIOLATION property=C15 replay={path}')
    return 1 if obs != want else 0
