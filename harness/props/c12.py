"""C12 - attribute classification.  Proof: coq/Props/C12.v.  Tie: exhaustive correspondence of the extracted model with
mosaik.scenario.parse_attrs and the OutSet/frozenset operators over a 3-attribute universe; the exactness of the
rejections is decided against an independent set-level specification (spec below)."""
import copy, itertools, json, random, warnings
from .. import common
import mosaik, mosaik_api_v3
from mosaik.scenario import parse_attrs
from mosaik.in_or_out_set import OutSet, parse_set_triple

U3 = ['a', 'b', 'c']; IDX = {'a': 0, 'b': 1, 'c': 2}; PROBE = U3 + ['z']
SUBSETS = [None] + [frozenset(c) for r in range(4) for c in itertools.combinations(U3, r)]
TYPES = ['time-based', 'event-based', 'hybrid']
ALL = (True, frozenset()); EMPTY = (False, frozenset())


def fin(s): return (False, frozenset(s))
def mem(x, S): return (x not in S[1]) if S[0] else (x in S[1])
def union(A, B):
    if A[0] and B[0]: return (True, A[1] & B[1])
    if A[0]: return (True, A[1] - B[1])
    if B[0]: return (True, B[1] - A[1])
    return (False, A[1] | B[1])
def inter(A, B):
    if A[0] and B[0]: return (True, A[1] | B[1])
    if A[0]: return (False, B[1] - A[1])
    if B[0]: return (False, A[1] - B[1])
    return (False, A[1] & B[1])
def diff(A, B): return inter(A, (not B[0], B[1]))
class Reject(Exception): pass


def solve(U, A, B):
    if U is None:
        if A is None or B is None: raise Reject('underspecified')
        U = union(A, B)
    if A is None:
        if B is None: raise Reject('underspecified')
        A = diff(U, B)
    if B is None: B = diff(U, A)
    if inter(A, B) != EMPTY: raise Reject('overlap')
    if union(A, B) != U: raise Reject('not a partition of the union')
    return A, B


def spec(desc, typ):
    attrs = desc.get('attrs'); w = lambda s: None if s is None else fin(s)
    U = ALL if desc.get('any_inputs') else w(attrs)
    T = w(desc.get('trigger')); N = w(desc.get('non-trigger')); P = w(desc.get('persistent')); Q = w(desc.get('non-persistent'))
    if typ == 'time-based': Ng, Tg = N, (T if T is not None else EMPTY)
    elif typ == 'event-based': Ng, Tg = (N if N is not None else EMPTY), T
    else: Ng, Tg = (N if N is not None else (None if T is not None else U)), T
    Ns, Ts = solve(U, Ng, Tg)
    if typ == 'time-based' and Ts != EMPTY: raise Reject('time-based with trigger attrs')
    if typ == 'event-based' and Ns != EMPTY: raise Reject('event-based with non-trigger attrs')
    O = w(attrs)
    if typ == 'event-based': Pg, Qg = (P if P is not None else EMPTY), Q
    else: Pg, Qg = P, (Q if Q is not None else EMPTY)
    Ps, Qs = solve(O, Pg, Qg)
    if typ == 'time-based' and Qs != EMPTY: raise Reject('time-based with non-persistent attrs')
    if typ == 'event-based' and Ps != EMPTY: raise Reject('event-based with persistent attrs')
    return Ns, Ts, Ps, Qs


def make_desc(attrs, T, N, P, Q, anyi):
    d = {}
    if attrs is not None: d['attrs'] = sorted(attrs)
    if T is not None: d['trigger'] = sorted(T)
    if N is not None: d['non-trigger'] = sorted(N)
    if P is not None: d['persistent'] = sorted(P)
    if Q is not None: d['non-persistent'] = sorted(Q)
    if anyi: d['any_inputs'] = True
    return d


def canon(S):
    if isinstance(S, OutSet): return 'C' + ','.join(str(IDX[x]) for x in sorted(S._set))
    return 'F' + ','.join(str(IDX[x]) for x in sorted(S))


def opt(l): return '0' if l is None else f"1 {len(l)} {' '.join(str(IDX[x]) for x in sorted(l))}"
def sset(S): return ('1 ' if isinstance(S, OutSet) else '0 ') + f"{len(S._set) if isinstance(S, OutSet) else len(S)} " + ' '.join(str(IDX[x]) for x in sorted(S._set if isinstance(S, OutSet) else S))


def impl1(d, typ):
    try:
        r = parse_attrs(d, typ)
        return 'ok', r
    except ValueError as e:
        return 'reject', str(e)
    except BaseException as e:
        return 'crash:' + type(e).__name__, None


def impl(desc, typ):
    """the description is parsed twice from the SAME dict object (two model names may share one description): the
    outcome must be a function of description and type, so the second parse must agree with the first"""
    d = copy.deepcopy(desc)
    ir, r = impl1(d, typ)
    ir2, r2 = impl1(d, typ)
    if ir2 != ir or (ir == 'ok' and [canon(x) for x in r] != [canon(x) for x in r2]):
        return 'unstable', f'first parse: {ir} {r if ir != "ok" else [canon(x) for x in r]}; second parse of the same dict: {ir2} {r2 if ir2 != "ok" else [canon(x) for x in r2]}'
    return ir, r


class Stub(mosaik_api_v3.Simulator):
    """in-process simulator whose meta is given by the scenario (two model names sharing one description dict)"""
    META = {}
    def __init__(self): super().__init__({})
    def init(self, sid, time_resolution=None, **kw): return Stub.META
    def create(self, num, model):
        if Stub.META.get('_children'):
            # hierarchical entities: a parent with children of several models, in the given order
            return [{'eid': f'{model}{i}', 'type': model, 'children': [{'eid': f'{model}{i}.{k}{c}', 'type': c} for k, c in enumerate(Stub.META['_children'])]} for i in range(num)]
        return [{'eid': f'{model}{i}', 'type': model} for i in range(num)]
    def step(self, time, inputs, max_advance=None): return time + 1
    def get_data(self, outputs): return {}


def children_check(violations):
    """every entity - also a child of a hierarchical entity, whatever its position among its siblings - is classified by the
    description of ITS OWN model"""
    descs = {'A': {'public': True, 'params': [], 'attrs': ['x', 'y'], 'trigger': ['x']},
             'B': {'public': True, 'params': [], 'attrs': ['x', 'y'], 'trigger': ['y'], 'non-persistent': ['x']},
             'C': {'public': True, 'params': [], 'attrs': ['x'], 'any_inputs': True, 'non-trigger': ['x']}}
    n = 0
    for order in (['A', 'B'], ['B', 'A'], ['A', 'B', 'C'], ['C', 'A'], ['B', 'C', 'A']):
        Stub.META = {'api_version': '3.0', 'type': 'hybrid', 'models': copy.deepcopy(descs), '_children': order}
        w = mosaik.World({'S': {'python': 'harness.props.c12:Stub'}}, skip_greetings=True)
        try:
            f = w.start('S')
            parent = f.A.create(1)[0]
            want = {m: parse_attrs(copy.deepcopy(descs[m]), 'hybrid') for m in descs}
            for e, typ_ in zip([parent] + list(parent.children), ['A'] + order):
                n += 1
                mi, ei, mo, eo = want[typ_]
                got = [(a, e.triggered_by(a), e.is_persistent(a)) for a in ('x', 'y', 'z')]
                exp = [(a, a in ei, a in mo) for a in ('x', 'y', 'z')]
                if got != exp or e.model_mock.name != typ_ or e.type != typ_:
                    violations.append(dict(kind='children', children=order, entity=e.eid, model=typ_,
                                           expected=f'(attribute, trigger input, persistent output) = {exp} by the description of model {typ_}',
                                           observed=f'{got}, carried model description: {e.model_mock.name}'))
                    return n
        except Exception as ex:
            violations.append(dict(kind='children', children=order, expected='start and create succeed', observed=f'{type(ex).__name__}: {ex}'[:200])); return n
        finally:
            w.shutdown()
    return n


def started(desc, typ, shared):
    """world.start with models A and B of the same description (one dict object if shared); returns 'ok', [classes of A, of B] or 'reject'"""
    d = copy.deepcopy(desc)
    Stub.META = {'api_version': '3.0', 'type': typ, 'models': {'A': d, 'B': d if shared else copy.deepcopy(desc)}}
    w = mosaik.World({'S': {'python': 'harness.props.c12:Stub'}}, skip_greetings=True)
    try:
        f = w.start('S')
        res = []
        for name in ('A', 'B'):
            m = getattr(f, name)
            res.append([canon(x) for x in (m.measurement_inputs, m.event_inputs, m.measurement_outputs, m.event_outputs)])
        return 'ok', res
    except ValueError as e:
        return 'reject', str(e)[:200]
    except BaseException as e:
        return 'crash:' + type(e).__name__, str(e)[:200]
    finally:
        w.shutdown()


def run(out, info, tier, seed):
    rng = random.Random(seed)
    out.checker_cmd = 'make -C coq && coqc -Q coq MV coq/Props/C12.v'
    out.trusted_base = common.COMMON_TRUSTED + ['modelled by hand: in_or_out_set.py completely, scenario.parse_attrs (Static/Attrs.v); the model description is reduced to the five lists + any_inputs']
    obl, log, broken = common.check_props_file('C12', info)
    for o in obl: out.add_obligation(o['name'], o['ok'], o['assumptions'])
    bad = common.hygiene()
    out.add_obligation('hygiene: no Admitted/admit/Axiom/Parameter/Unset Guard in coq/', not bad, '; '.join(bad[:5]))
    if broken: out.notes.append('broken files: ' + ', '.join(broken) + '\n' + log[-1500:])
    space = [(a, T, N, P, Q, anyi, typ) for a, T, N, P, Q in itertools.product(SUBSETS, repeat=5) for anyi in (False, True) for typ in TYPES]
    exhaustive = tier == 'thorough'
    cases = space if exhaustive else rng.sample(space, 12000)
    violations, mism, reqs, impls = [], [], [], []
    hist = {'ok': 0, 'reject': 0}; nontriv = 0
    for (a, T, N, P, Q, anyi, typ) in cases:
        desc = make_desc(a, T, N, P, Q, anyi)
        ir, r = impl(desc, typ)
        hist[ir.split(':')[0]] = hist.get(ir.split(':')[0], 0) + 1
        try: s = spec(desc, typ); sr = 'ok'
        except Reject as e: s = str(e); sr = 'reject'
        d = dict(kind='attrs', desc=desc, type=typ)
        if ir != sr:
            violations.append(dict(d, expected=sr + ('' if sr == 'ok' else f' ({s})'), observed=ir + ('' if ir == 'ok' else f' ({r})')))
        elif ir == 'ok':
            nontriv += 1
            for S, R in zip(s, r):
                if any(mem(x, S) != (x in R) for x in PROBE) or S[0] != isinstance(R, OutSet):
                    violations.append(dict(d, expected='classification ' + str(s), observed=str([canon(x) for x in r]))); break
        reqs.append(f"A_PARSE {TYPES.index(typ)} {int(anyi)} {opt(a)} {opt(T)} {opt(N)} {opt(P)} {opt(Q)}")
        impls.append('ok ' + ' '.join(canon(x) for x in r) if ir == 'ok' else ir)
    # starting a simulator: two model names with the same description (the same dict object, or two equal ones) - both are
    # classified as the specification says, or the start is rejected
    nstart = 0
    with warnings.catch_warnings():
        warnings.simplefilter('ignore')
        for k, (a, T, N, P, Q, anyi, typ) in enumerate(rng.sample(space, 150 if tier == 'quick' else 1500)):
            desc = make_desc(a, T, N, P, Q, anyi); nstart += 1
            try: sp = spec(desc, typ); sr = 'ok'
            except Reject as e: sp = str(e); sr = 'reject'
            ir, r = started(desc, typ, shared=(k % 3 != 0))
            d = dict(kind='start', desc=desc, type=typ, shared=(k % 3 != 0))
            if ir != sr:
                violations.append(dict(d, expected=sr + ('' if sr == 'ok' else f' ({sp})'), observed=f'{ir} ({r})'))
            elif ir == 'ok' and (r[0] != r[1] or r[0] != [canon(x) for x in parse_attrs(copy.deepcopy(desc), typ)]):
                violations.append(dict(d, expected='both models classified as parse_attrs classifies the description', observed=str(r)))
    nstart += children_check(violations)
    # set expressions: all pairs of finite / co-finite sets over the universe x the three operators and ==
    sets = [frozenset(c) for r_ in range(4) for c in itertools.combinations(U3, r_)] + [OutSet(c) for r_ in range(4) for c in itertools.combinations(U3, r_)]
    nops = 0
    for A in sets:
        for B in sets:
            for op, f in (('sub', lambda x, y: x - y), ('and', lambda x, y: x & y), ('or', lambda x, y: x | y)):
                nops += 1
                R = f(A, B)
                want = {'sub': lambda x: (x in A) and not (x in B), 'and': lambda x: (x in A) and (x in B), 'or': lambda x: (x in A) or (x in B)}[op]
                if any((x in R) != want(x) for x in PROBE):
                    violations.append(dict(kind='setop', op=op, a=canon(A), b=canon(B), observed=canon(R)))
                reqs.append(f"A_OP {op} {sset(A)} {sset(B)}"); impls.append(canon(R))
            eq = (A == B); ext = all((x in A) == (x in B) for x in PROBE) and isinstance(A, OutSet) == isinstance(B, OutSet)
            nops += 1
            if eq != ext: violations.append(dict(kind='setop', op='eq', a=canon(A), b=canon(B), observed=str(eq)))
            reqs.append(f"A_OP eq {sset(A)} {sset(B)}"); impls.append('1' if eq else '0')
    if info.driver_ok:
        got = common.batch_model(reqs)
        for q, i, g in zip(reqs, impls, got):
            gi = g if not g.startswith(('missing', 'notdisjoint', 'notunion', 'forbidden')) else 'reject'
            if gi != i: mism.append(dict(request=q, model=g, implementation=i))
        out.add_obligation('correspondence: extracted Attrs model = parse_attrs / OutSet operators', not mism, f'{len(reqs)} calls')
        if mism: out.notes.append('first disagreements: ' + json.dumps(mism[:3]))
    else:
        out.add_obligation('correspondence: extracted model available', False, info.driver_msg[-300:])
    for v in violations[:1]: out.violations.append(v)
    out.coverage = {'evaluations': len(cases) + nops + nstart, 'distinct_nontrivial': nontriv, 'exhaustive': exhaustive, 'traces_validated_against_impl': len(reqs) if info.driver_ok else 0,
                    'rule': f'descriptions: each of attrs/trigger/non-trigger/persistent/non-persistent absent or any subset of {{a,b,c}} x any_inputs x 3 types = {len(space)} (thorough: all; quick: seeded sample of 12000); '
                            f'every description is parsed twice from the same dict object (same outcome required); {nstart} sampled descriptions are started as two models A, B of one in-process simulator (two thirds sharing one dict object); '
                            f'set expressions: all {len(sets)}^2 pairs of finite/co-finite sets x (-, &, |, ==); non-trivial = accepted descriptions (classification compared elementwise incl. an attribute outside the universe)',
                    'samples': [dict(desc=make_desc(*cases[0][:6]), type=cases[0][6]), {'request': reqs[0], 'implementation': impls[0]}],
                    'verdict_histogram': hist, 'monitor_failures': len(violations), 'correspondence_mismatches': len(mism)}


def replay(path, out):
    r = json.load(open(path))
    if r.get('kind') == 'children':
        v = []; children_check(v); [print(x['observed']) for x in v]
        if v: print(f'VIOLATION property=C12 replay={path}')
        return 1 if v else 0
    if r.get('kind') == 'start':
        ir, res = started(r['desc'], r['type'], r['shared'])
        try: spec(r['desc'], r['type']); sr = 'ok'
        except Reject as e: sr = 'reject'
        print('world.start:', ir, res, '| specification:', sr)
        bad = ir != sr or (ir == 'ok' and res[0] != res[1])
        if bad: print(f'VIOLATION property=C12 replay={path}')
        return 1 if bad else 0
    if r.get('kind') != 'attrs':
        print(json.dumps(r, indent=1)[:2000]); print('re-run ./check C12'); return 1
    ir, res = impl(r['desc'], r['type'])
    try: s = spec(r['desc'], r['type']); sr = 'ok'
    except Reject as e: sr = 'reject'
    print('implementation:', ir, res if ir != 'ok' else [canon(x) for x in res], '| specification:', sr)
    bad = ir != sr
    if bad: print(f'VIOLATION property=C12 replay={path}')
    return 1 if bad else 0
