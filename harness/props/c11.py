"""C11 - connection validation and group scoping.  Proof: coq/Props/C11.v.  Tie: the extracted connect_one /
connect_interval model against World.connect on placements of two simulators in a group tree x all flags."""
import copy, itertools, json, random
from .. import common, simlib
import mosaik
from mosaik.exceptions import ScenarioError

PLACES = [[], [0], [0, 0], [0, 1], [1], [1, 0]]
SRC = {'po': (True, True), 'eo': (True, False), 'nope': (False, False)}      # attr -> (is output, persistent)
DST = {'i': (True, True, False), 'ti': (True, False, True), 'nope': (False, False, False)}   # (is input, nontrigger, trigger)


def snapshot(world):
    def ivs(d): return simlib.iv(d)
    snap = {}
    for sid, s in world.sims.items():
        snap[sid] = {
            'indel': {k.sid: ivs(d) for k, d in s.input_delays.items()},
            'succ': {k.sid: ivs(d) for k, d in s.successors.items()},
            'succw': {k.sid: ivs(d) for k, d in s.successors_to_wait_for.items()},
            'trig': {str(p): [(k.sid, ivs(d)) for k, d in l] for p, l in s.triggers.items()},
            'push': {str(p): [(k.sid, ivs(d), str(dp)) for k, d, dp in l] for p, l in s.output_to_push.items()},
            'pull': {f'{k.sid}|{ivs(d)}': sorted(map(str, fl)) for (k, d), fl in s.pulled_inputs.items()},
            'outreq': copy.deepcopy(s.output_request),
            'pers': copy.deepcopy(s.persistent_inputs),
            'outputs': copy.deepcopy(s.outputs),
        }
    return json.dumps(snap, sort_keys=True, default=str)


def effects_from_tables(world, sa, da, shift):
    S, D = world.sims['S0'], world.sims['S1']
    sp, dp = ('e', sa), ('e', da)
    out = []
    if S in D.input_delays: out.append(f'indel({simlib.iv(D.input_delays[S])})')
    pers = D.persistent_inputs.get('e', {}).get(da, {})
    init_p = 'S0.e' in pers and pers['S0.e'] is not None
    if 'S0.e' in pers and pers['S0.e'] is None: out.append('persist_default')
    if sa in S.output_request.get('e', []): out.append('outreq')
    for (k, d), fl in D.pulled_inputs.items():
        if k is S and (sp, dp) in fl: out.append(f'pulled({simlib.iv(d)})')
    for k, d, p in S.output_to_push.get(sp, []):
        if k is D and p == dp: out.append(f'pushed({simlib.iv(d)})')
    if D in S.successors: out.append(f'succ({simlib.iv(S.successors[D])})')
    for k, d in S.triggers.get(sp, []):
        if k is D: out.append(f'trigger({simlib.iv(d)})')
    if S.outputs:
        for t, dd in S.outputs.items():
            if sa in dd.get('e', {}): out.append(f'init_cache({t})')
    if init_p: out.append('init_persist')
    return out


ANY = (True, True, False)        # destination entity of the any_inputs model: every attribute is an input, a non-trigger one (hybrid defaults)


def dfacts_of(dst_any, da):
    """attribute facts of the destination: model M (DST), the any_inputs model A (2), or A with non-trigger = [i] (3: i is a
    non-trigger input, every other attribute a trigger input)"""
    if dst_any == 3: return (True, da == 'i', da != 'i')
    return ANY if dst_any else DST[da]


def model_request(ps, pd, sa, da, shift, weak, init, cache, dst_any=False):
    parents, ids = simlib.gtab_of([ps, pd])
    dfacts = dfacts_of(dst_any, da)
    f = [SRC[sa][0], dfacts[0], dfacts[1], dfacts[2], SRC[sa][1]]
    return (f"connect_one {len(parents)} {' '.join(map(str, parents))} {ids[tuple(ps)]} {ids[tuple(pd)]} "
            + ' '.join('1' if x else '0' for x in f) + f" {shift} {int(weak)} {int(init)} {int(cache)}")


REASONS = []       # the objections named by the last rejected connect() call (filled by one_case)


def canon(effects):
    """the final tables cannot show a setdefault(None) that the initial data then overwrote"""
    es = effects.split(';')
    if 'init_persist' in es: es = [e for e in es if e != 'persist_default']
    return ';'.join(es)


def spec_reject(ps, pd, sa, da, shift, weak, init, dst_any=False):
    """the statement of C11, written independently of model and code (for the monitor)"""
    D = dfacts_of(dst_any, da)
    common_len = 0
    for x, y in zip(ps, pd):
        if x != y: break
        common_len += 1
    return (not SRC[sa][0]) or (not D[0]) or ((shift or weak) and D[1] and not init) or (weak and common_len == 0)


def run(out, info, tier, seed):
    rng = random.Random(seed)
    out.checker_cmd = 'make -C coq && coqc -Q coq MV coq/Props/C11.v'
    out.trusted_base = common.COMMON_TRUSTED + [
        'modelled by hand (Static/Groups.v, Static/Connect.v): SimGroup/group_path/connect_interval and connect_one '
        '(decision, delay, table updates); attribute facts (is output / trigger / persistent) are inputs of the model',
        'not modelled: entity_graph bookkeeping, warnings, World.connect\'s error aggregation over several pairs']
    obl, log, broken = common.check_props_file('C11', info)
    for o in obl: out.add_obligation(o['name'], o['ok'], o['assumptions'])
    bad = common.hygiene()
    out.add_obligation('hygiene: no Admitted/admit/Axiom/Parameter/Unset Guard in coq/', not bad, '; '.join(bad[:5]))
    if broken: out.notes.append('broken files: ' + ', '.join(broken) + '\n' + log[-1500:])
    space = [(ps, pd, sa, da, sh, w, ini, c) for ps in PLACES for pd in PLACES for sa in SRC for da in DST
             for sh in (0, 1, 2) for w in (False, True) for ini in (False, True) for c in (False, True)]
    exhaustive = tier == 'thorough'
    cases = space if exhaustive else rng.sample(space, 1500)
    # always include the corpus (witnesses of fixed findings)
    corpus = [([0], [1], 'po', 'ti', 0, True, False, True), ([0, 0], [0, 1], 'po', 'ti', 0, True, False, True),
              ([0], [1], 'po', 'i', 0, True, True, False),
              ([], [], 'nope', 'i', 0, False, False, True)]       # (fourth, odd index: run with async_requests=True - witness of the fixed finding F23)
    cases = corpus + cases
    def child_of(idx):
        # hierarchical entities: the attribute facts that count are those of the entity's own model, not its parent's;
        # every eighth call: the destination is an entity of a model with any_inputs (third component 2)
        if idx < len(corpus): return (False, False)
        if idx % 16 == 15: return (False, 3)
        if idx % 8 == 7: return (False, 2)
        return ((idx // 2) % 2 == 1, (idx // 4) % 2 == 1)
    reqs = [model_request(*c, dst_any=(child_of(i)[1] if child_of(i)[1] in (2, 3) else False)) for i, c in enumerate(cases)]
    model = common.batch_model(reqs) if info.driver_ok else None
    if not info.driver_ok:
        out.add_obligation('correspondence: extracted model available', False, info.driver_msg[-300:])
    mismatches, violations, nontriv, seen = [], [], set(), 0
    hist = {'accepted': 0, 'rejected': 0, 'crashed': 0}
    for idx, c in enumerate(cases):
        ps, pd, sa, da, sh, w, ini, cache = c
        prior = (idx % 3 == 0) and not exhaustive or (exhaustive and idx % 2 == 0)
        child = child_of(idx)
        want_reject = spec_reject(ps, pd, sa, da, sh, w, ini, dst_any=(child[1] if child[1] in (2, 3) else False))
        asyn = bool(want_reject) and idx % 2 == 1       # every other call that has to be rejected also asks for async_requests
        stray = (not ini) and sa != da and idx % 4 == 1       # initial_data given, but under keys that are not the pair's source attribute
        res, unchanged, eff = one_case_wrapped(ps, pd, sa, da, sh, w, ini, cache, prior, child, asyn=asyn, stray_init=stray)
        seen += 1
        hist[res.split(':')[0]] = hist.get(res.split(':')[0], 0) + 1
        desc = dict(kind='connect', src_group=ps, dst_group=pd, src_attr=sa, dst_attr=da, time_shifted=sh, weak=w,
                    initial_data=ini, cache=cache, prior_connection=prior, child_entity=list(child), async_requests=asyn, stray_initial_data=stray)
        # monitor: the property itself on the implementation
        if res.startswith('crashed') or (res == 'rejected') != bool(want_reject):
            violations.append(dict(desc, expected='rejected' if want_reject else 'accepted', observed=res))
        elif res == 'rejected' and not unchanged:
            violations.append(dict(desc, expected='tables unchanged after rejection', observed='tables changed'))
        if ps != pd or w or sh: nontriv.add(json.dumps(desc, sort_keys=True))
        # correspondence with the model
        if model is not None:
            m = model[idx]
            m_should, m_res = m.split(' ', 1)
            m_kind = m_res.split(' ')[0]
            if m_kind != res.split(':')[0]:
                mismatches.append(dict(desc, model=m_res, impl=res))
            elif res == 'rejected' and REASONS and (m_res.split(' ', 1) + [''])[1] != REASONS[-1]:
                mismatches.append(dict(desc, model=m_res, impl='rejected ' + REASONS[-1], note='the objections listed in the error differ'))
            elif eff is not None and canon(m_res.split(' ', 1)[1]) != ';'.join(eff):
                mismatches.append(dict(desc, model=m_res, impl=';'.join(eff)))
    # several attribute pairs in one connect() call
    n_multi = 0
    mrng = random.Random(seed + 5)
    for _ in range(250 if not exhaustive else 3000):
        ps, pd = mrng.choice(PLACES), mrng.choice(PLACES)
        k = mrng.choice([2, 2, 3])
        allp = [(a, b) for a in SRC for b in DST]
        pairs = mrng.sample(allp, k)
        if len({b for _, b in pairs}) < len(pairs) and mrng.random() < 0.5: continue      # (mostly distinct destination attributes)
        sh, w, ini, c = mrng.choice([0, 0, 1, 2]), mrng.random() < 0.3, mrng.random() < 0.5, mrng.random() < 0.5
        n_multi += 1
        try:
            f = multi_case(ps, pd, pairs, sh, w, ini, c)
        except Exception as e:
            f = dict(expected='no crash', observed=f'{type(e).__name__}: {e}'[:200])
        if f:
            violations.append(dict(kind='connect_multi', src_group=ps, dst_group=pd, pairs=[list(x) for x in pairs], time_shifted=sh, weak=w,
                                   initial_data=ini, cache=c, **f))
    seen += n_multi
    if model is not None:
        out.add_obligation('correspondence: extracted connect_one = World.connect (decision, delay, table effects)',
                           not mismatches, f'{seen} calls compared')
        if mismatches: out.notes.append('first disagreements: ' + json.dumps(mismatches[:3]))
    for v in violations[:1]: out.violations.append(v)
    out.coverage = {'evaluations': seen, 'distinct_nontrivial': len(nontriv), 'exhaustive': exhaustive,
                    'rule': f'placements of source/destination simulator in a group tree with nested and sibling groups ({len(PLACES)}^2) x source attr '
                            '{persistent, event, missing} x dest attr {non-trigger, trigger, missing} x time_shifted {0,1,2} x weak x initial_data x cache '
                            f'= {len(space)} cases; thorough = all, quick = seeded sample of 1500; half/third with a prior accepted connection to make '
                            '"unchanged tables" non-trivial; in three quarters of the calls the source and/or destination entity is a child entity (model M) created '
                            'hierarchically under a parent of another model whose attribute facts differ; non-trivial = different groups or weak or shifted; '
                            f'plus {n_multi} connect() calls with two or three attribute pairs at once, compared with the accepted pairs connected one by one',
                    'samples': [dict(zip(['src_group', 'dst_group', 'src_attr', 'dst_attr', 'shift', 'weak', 'init', 'cache'], cases[3])),
                                {'model_request': reqs[3], 'model_reply': model[3] if model else None}],
                    'traces_validated_against_impl': seen if model is not None else 0,
                    'outcome_histogram': hist, 'monitor_failures': len(violations), 'correspondence_mismatches': len(mismatches)}


def one_case_wrapped(ps, pd, sa, da, sh, w, ini, cache, prior, child=(False, False), asyn=False, stray_init=False):
    # build_world does not return entity handles; wrap World.start to record them.  child[k]: the entity of
    # simulator k is a child (model M) of a parent entity of another model P whose attribute facts differ.
    import mosaik.scenario as sc
    orig = sc.World.start
    ents = {}

    def start(self, *a, **k):
        mf = orig(self, *a, **k)
        real_M, real_P = mf.M, getattr(mf, 'P', None)
        class Wrap:
            def M(_s, **kw):
                e = real_M(**kw); ents[k['sim_id']] = e; return e
            def P(_s, **kw):
                e = real_P(**kw); ents[k['sim_id']] = e.children[0]; return e
            def A(_s, **kw):
                e = getattr(mf, 'A')(**kw); ents[k['sim_id']] = e; return e
        return Wrap()
    sc.World.start = start
    try:
        case = {'n': 2, 'types': ['hybrid', 'hybrid'], 'grp': [ps, pd], 'edges': [], 'until': 2,
                'beh': [{'type': 'hybrid', 'parent_model': child[0] is True}, {'type': 'hybrid', 'parent_model': child[1] is True, 'any_inputs_model': (True if child[1] == 2 else 'nt' if child[1] == 3 else False)}]}
        try:
            world = simlib.build_world(case, cache=cache)
        except Exception as e:
            # (starting the two simulators of a valid scenario must not fail)
            return 'crashed:start:' + type(e).__name__ + ':' + str(e)[:80], True, None
    finally:
        sc.World.start = orig
    try:
        src, dst = ents['S0'], ents['S1']
        if prior:
            try:
                world.connect(src, dst, ('po', 'i'))
            except Exception as e:
                # (a plain connection from a persistent output into a non-trigger input is valid for every placement and model)
                return 'crashed:prior plain connection po->i refused:' + type(e).__name__, True, None
        before = snapshot(world)
        kw = {}
        if sh: kw['time_shifted'] = sh
        if w: kw['weak'] = True
        if ini: kw['initial_data'] = {sa: 'INIT'}
        elif stray_init: kw['initial_data'] = {da: 'STRAY', 'other': 'STRAY'}     # keys that name no SOURCE attribute of the call: no initial data for this pair
        if asyn: kw['async_requests'] = True        # (a rejected call must not leave the async-requests relation behind either)
        try:
            world.connect(src, dst, (sa, da), **kw); res = 'accepted'
        except ScenarioError as e:
            res = 'rejected'
            # which objections the error lists (compared with the model's list of problems, in order)
            msg = str(e); why = []
            for text, name in (('the source attribute does not exist', 'src_attr'), ('the destination attribute does not exist', 'dst_attr'),
                               ('requires initial data', 'initial_data'), ('Weak connections may only', 'weak_root')):
                if text in msg: why.append((msg.index(text), name))
            REASONS.append(','.join(n for _, n in sorted(why)))
        except Exception as e:
            res = 'crashed:' + type(e).__name__
        after = snapshot(world)
        eff = effects_from_tables(world, sa, da, sh) if (res == 'accepted' and not prior) else None
        return res, before == after, eff
    finally:
        world.shutdown()


def canon_snapshot(snap):
    """order-insensitive form of a snapshot (several pairs of one connect() call are processed in set order)"""
    def c(x):
        if isinstance(x, dict): return {k: c(v) for k, v in x.items()}
        if isinstance(x, list): return sorted((c(v) for v in x), key=lambda v: json.dumps(v, sort_keys=True, default=str))
        return x
    return json.dumps(c(json.loads(snap)), sort_keys=True, default=str)


def multi_case(ps, pd, pairs, sh, w, ini, cache):
    """several attribute pairs in ONE connect() call: rejected iff some pair is rejected, and the data-flow left behind
    is exactly that of the accepted pairs connected one by one (a rejected pair leaves nothing behind, an accepted one is
    not lost because another pair of the call was rejected)"""
    import mosaik.scenario as sc
    def build():
        orig = sc.World.start; ents = {}
        def start(self, *a, **k):
            mf = orig(self, *a, **k); real_M = mf.M
            class Wrap:
                def M(_s, **kw):
                    e = real_M(**kw); ents[k['sim_id']] = e; return e
            return Wrap()
        sc.World.start = start
        try:
            case = {'n': 2, 'types': ['hybrid', 'hybrid'], 'grp': [ps, pd], 'edges': [], 'until': 2, 'beh': [{'type': 'hybrid'}, {'type': 'hybrid'}]}
            world = simlib.build_world(case, cache=cache)
        finally:
            sc.World.start = orig
        return world, ents['S0'], ents['S1']
    def kwargs(prs):
        kw = {}
        if sh: kw['time_shifted'] = sh
        if w: kw['weak'] = True
        if ini: kw['initial_data'] = {sa: 'INIT' for sa, _ in prs}
        return kw
    world, src, dst = build()
    try:
        try:
            world.connect(src, dst, *pairs, **kwargs(pairs)); res = 'accepted'
        except ScenarioError:
            res = 'rejected'
        except Exception as e:
            res = 'crashed:' + type(e).__name__
        snap_multi = canon_snapshot(snapshot(world))
    finally:
        world.shutdown()
    good = [p_ for p_ in pairs if not spec_reject(ps, pd, p_[0], p_[1], sh, w, ini)]
    world, src, dst = build()
    try:
        for p_ in good:
            world.connect(src, dst, p_, **kwargs([p_]))
        snap_seq = canon_snapshot(snapshot(world))
    finally:
        world.shutdown()
    want = 'accepted' if len(good) == len(pairs) else 'rejected'
    if res != want: return dict(expected=want, observed=res)
    if snap_multi != snap_seq: return dict(expected='the data-flow of the accepted pairs connected one by one', observed='different tables after the joint call')
    return None


def replay(path, out):
    r = json.load(open(path))
    if r.get('kind') == 'connect_multi':
        f = multi_case(r['src_group'], r['dst_group'], [tuple(x) for x in r['pairs']], r['time_shifted'], r['weak'], r['initial_data'], r['cache'])
        print(f if f else 'joint call behaves like the separate calls')
        if f: print(f'VIOLATION property=C11 replay={path}')
        return 1 if f else 0
    if r.get('kind') != 'connect':
        print(json.dumps(r, indent=1)); print('obligation replay: re-run ./check C11'); return 1
    res, unchanged, eff = one_case_wrapped(r['src_group'], r['dst_group'], r['src_attr'], r['dst_attr'], r['time_shifted'],
                                           r['weak'], r['initial_data'], r['cache'], r['prior_connection'], tuple(r.get('child_entity', (False, False))), asyn=r.get('async_requests', False), stray_init=r.get('stray_initial_data', False))
    want = spec_reject(r['src_group'], r['dst_group'], r['src_attr'], r['dst_attr'], r['time_shifted'], r['weak'], r['initial_data'],
                       dst_any=(tuple(r.get('child_entity', (False, False)))[1] if tuple(r.get('child_entity', (False, False)))[1] in (2, 3) else False))
    print('observed:', res, 'tables unchanged:', unchanged, 'expected:', 'rejected' if want else 'accepted')
    bad = res.startswith('crashed') or (res == 'rejected') != bool(want) or (res == 'rejected' and not unchanged)
    if bad: print(f'VIOLATION property=C11 replay={path}')
    return 1 if bad else 0
