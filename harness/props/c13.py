"""C13 - runtime validation of replies. Proof: coq/Props/C13.v. Tie: trace validation with one malformed reply injected per case (kind x step index x simulator)."""
from .. import common, sched_check, monitors, gen

KINDS = ['impl_err:outtime', 'impl_err:reply', 'model_err:outtime', 'model_err:reply', 'outcome']


def nontrivial(case, run, val):
    m = case.get('malformed')
    return bool(m) and any(l[0] == 'BEGIN' and l[1] == f'S{m[0]}' and l[2][0] == m[1] for l in run.log)


def features(case, run, val):
    f = ['groups' if any(case['grp']) else 'flat']
    f += sorted({'edge:' + e['kind'] for e in case['edges']})
    if any(e.get('async') for e in case['edges']): f.append('async')
    f.append('outcome:' + val.impl_kind)
    return f



TEMPLATES = ['single', 'feeds', 'fed', 'fed_shifted']
OFFENDER = ['time-based', 'hybrid', 'event-based']
N_REPLY = 13
N_DIRECTED = len(TEMPLATES) * len(OFFENDER) * 3 * N_REPLY * 2 * 2


def directed_case(idx, extra_reply=None):
    """systematic part: topology template x type of the offending simulator x step index of the malformed reply x reply kind
    x API version announced by the offender (current / older, i.e. behind the version adapters) x World(debug)"""
    tpl, idx = TEMPLATES[idx % len(TEMPLATES)], idx // len(TEMPLATES)
    typ, idx = OFFENDER[idx % 3], idx // 3
    at, idx = idx % 3, idx // 3
    rk, idx = idx % N_REPLY, idx // N_REPLY
    old, idx = idx % 2, idx // 2
    dbg = idx % 2
    until = 6
    tt = at                                      # the offender steps at 0, 1, 2, ... (self-steps every time unit)
    replies = [tt, tt - 1, 0 if tt else -3, -1, 'float:1.5', 'soon', None, True, False, f'float:{tt + 1.5}', f'float:{tt + 2.25}', f'float:{tt + 1}.0',
               ('time', tt - 1)]
    rep = replies[rk] if extra_reply is None else extra_reply
    def sim(t):
        if t == 'time-based': return {'type': t, 'step_size': 1, 'default_output': [None, ['po']]}
        attrs = ['eo'] if t == 'event-based' else ['po', 'eo']
        return {'type': t, 'self_steps': {str(x): x + 1 for x in range(until)}, 'default_output': [None, attrs]}
    types = [typ]; beh = [sim(typ)]; edges = []; init = [[0, 0]] if typ == 'event-based' else []
    src = {'time-based': 'po', 'hybrid': 'po', 'event-based': 'eo'}
    if tpl == 'feeds':            # the offender feeds a consumer
        types.append('hybrid'); beh.append(sim('hybrid'))
        edges.append(dict(a=0, b=1, sa=src[typ], da='ti', kind='p', shift=0, init=False))
    elif tpl in ('fed', 'fed_shifted'):   # the offender is fed (and, unless time-based, triggered) by a producer
        types.append('time-based'); beh.append(sim('time-based'))
        ts = tpl == 'fed_shifted'
        da = 'i' if typ == 'time-based' else 'ti'
        edges.append(dict(a=1, b=0, sa='po', da=da, kind='ts' if ts else 'p', shift=1 if ts else 0, init=bool(ts and da == 'i')))
    if isinstance(rep, tuple):
        kind, val = 'time', rep[1]
        if not any(e['a'] == 0 for e in edges):      # an output time needs a connected output: let it feed a consumer
            types.append('hybrid'); beh.append(sim('hybrid'))
            edges.append(dict(a=0, b=len(types) - 1, sa=src[typ], da='ti', kind='p', shift=0, init=False))
    else:
        kind, val = 'step', rep
    beh[0].setdefault('bad', {})[f'{tt},0'] = [kind, val]
    if old: beh[0]['api_version'] = '2.2'
    n = len(types)
    case = dict(n=n, types=types, grp=[[] for _ in range(n)], edges=edges, until=until, beh=beh, init=init, maxloop=100, malformed=[0, tt, kind, val])
    if dbg: case['debug'] = True
    return case


EXTRA_REPLIES = ['float:inf', 'float:-inf', 'float:nan', 'float:1e308']      # not numbers a step time can be, whatever their use as sentinels


def case_gen(rng, k):
    if k % 30 == 0:
        # (one case in thirty: the non-finite replies, for every type of offender, template and step index in turn)
        j = k // 30
        return directed_case(j * 7 + 3, extra_reply=EXTRA_REPLIES[j % len(EXTRA_REPLIES)])
    if k % 3:
        # two thirds: the systematic family, visited with a stride that is coprime to its size
        j = k - k // 3 - 1
        return directed_case((j * 389) % N_DIRECTED)
    case = gen.gen_case(rng, groups=True, malformed=True)
    if k % 9 == 3: case['debug'] = True        # World(debug=True): the scheduler's step/get_outputs are wrapped by mosaik._debug
    return case


def run(out, info, tier, seed):
    out.trusted_base = common.COMMON_TRUSTED + [
        'modelled by hand: sim_process/next_step_settled/wait_for_dependencies/step/get_outputs/notify_dependencies/advance_progress/'
        'get_max_advance (Sched/Timing.v), World.connect tables and cache_triggering_ancestors (Static/Build.v, Sched/Link.v)',
        'assumed of asyncio: a task runs atomically between suspensions; futures wake their waiters (wake-up liveness is checked by the quiescence test)',
        'theorem premise static_ok (shape facts; the ancestors table dominates every trigger path) is checked per scenario by comparing the model-built tables with the implementation, not yet discharged by a closure theorem']
    out.assumptions = ['simulators are an oracle: any reply sequence (event list); delays that are compared have equal shape (convex group scenarios)']
    sched_check.sched_property(out, info, tier, seed, 'C13', KINDS, monitors.P_C13, gen_opts={'groups': True, 'malformed': True}, case_gen=case_gen,
                               ncases=(330, 4500), variants=[(True, True), (False, False)], nontrivial=nontrivial, features=features,
                               known_match=None, hyp=None,
                               extra_obligations=[('Sched.Inv (invariant preserved by every event)', 'Sched/Inv'),
                                                  ('Sched.Guards / Sched.Final', 'Sched/Final')])
    out.coverage['nontrivial_rule'] = 'the step carrying the malformed reply was actually executed'
    out.coverage['type_spellings'] = spelling_family(out)
    out.coverage['reused_reply_objects'] = stale_time_family(out)
    out.coverage['none_reply_with_pending_event'] = pending_event_family(out)


SPELLINGS = ['Time_Based', 'Time-based', ' time-based', 'TIME-BASED', 'time_based', 'timebased', 'Hybrid', 'EVENT-BASED']


def spelling_one(spelling, j):
    """a simulator that spells its type unusually either is refused when it is started or is held to the rules of the type it
    is taken for: a time-based one that replies None at its step number j aborts the run with an error naming it"""
    from .. import simlib, tracelib
    canon = spelling.strip().lower().replace('_', '-')
    typ = canon if canon in ('time-based', 'hybrid', 'event-based') else 'time-based'
    if typ != 'time-based': bad = {f'{j},0': ['step', 'soon']}          # (for the other types: a reply that is not a time at all)
    else: bad = {f'{j},0': ['step', None]}
    beh0 = {'type': typ, 'meta_type': spelling, 'step_size': 1, 'default_output': [None, ['po'] if typ != 'event-based' else ['eo']], 'self_steps': {str(t): t + 1 for t in range(6)}, 'bad': bad}
    case = dict(n=2, types=[typ, 'time-based'], grp=[[], []], edges=[dict(a=0, b=1, sa='po' if typ != 'event-based' else 'eo', da='i', kind='p', shift=0, init=False)],
                until=5, beh=[beh0, {'type': 'time-based', 'step_size': 1, 'default_output': [None, ['po']]}], init=[[0, 0]] if typ == 'event-based' else [], maxloop=100)
    r = simlib.run_case(case, strategy='oldest', seed=0)
    if r.build_error is not None: return None                 # refused at start / connect
    kind, who = tracelib.classify_outcome(r)
    if kind == 'reply' and who == 'S0': return None
    if kind.startswith('other:') and 'S0' in r.outcome: return None      # (a different wording that still names the offender)
    steps = [l[2][0] for l in r.log if l[0] == 'BEGIN' and l[1] == 'S0']
    return dict(kind='spelling', spelling=spelling, step_index=j, observed=[f"simulator S0 announces type {spelling!r}, is started, and its malformed reply {bad} at step {j} ends in: {r.outcome[:120]} (S0 stepped at {steps})"])


def stale_time_one(j, typ):
    """an in-process simulator that hands mosaik the same reply dict at every get_data call and writes its 'time' entry only
    once (at step 0): from step j on the entry is stale - earlier than the step - and the run must abort naming the simulator"""
    from .. import simlib, tracelib
    outs = {f'{t},0': [0 if t <= j - 1 else None, ['po']] for t in range(6)}       # 'time': 0 is written up to step j-1 and then left alone
    beh0 = {'type': typ, 'step_size': 1, 'self_steps': {str(t): t + 1 for t in range(6)}, 'outputs': outs, 'default_output': [None, ['po']], 'reuse_reply': True}
    case = dict(n=2, types=[typ, 'time-based'], grp=[[], []], edges=[dict(a=0, b=1, sa='po', da='i', kind='p', shift=0, init=False)],
                until=5, beh=[beh0, {'type': 'time-based', 'step_size': 1, 'default_output': [None, ['po']]}], init=[], maxloop=100)
    r = simlib.run_case(case, strategy='oldest', seed=0)
    kind, who = tracelib.classify_outcome(r)
    first_bad = 1                       # step 0 with time 0 is fine; at step 1 the entry (0) is earlier than the step
    if kind == 'outtime' and who == 'S0': return None
    return dict(kind='stale_time', step_index=j, sim_type=typ, observed=[f"S0 returns the same reply dict every time with a stale 'time' entry (0) from step {first_bad} on; run ended with: {r.outcome[:120]}"])


def pending_event_one(ev_at, ev, none_at, until=5):
    """real-time mode: a time-based simulator has asked for an extra step with set_event (so its queue is not empty) and then
    replies None: the run must still abort with the error naming it"""
    from . import c17
    cfg = dict(rt=0.125, res=1.0, until=until, strict=False,
               sims=[dict(step_size=1, typ='time-based', events={str(ev_at): [ev]}, none_at=[none_at]), dict(step_size=1)], connect=[(0, 1)])
    r = c17.trial(cfg)
    if 'must always return a next step' in r['outcome'] and 'S0' in r['outcome']: return None
    if r['outcome'].startswith('SimulationError') and 'S0' in r['outcome']: return None
    steps = [l[2] for l in r['log'] if l[0] == 'BEGIN' and l[1] == 'S0']
    return dict(kind='none_with_pending_event', cfg=cfg, observed=[f"real-time run: time-based S0 calls set_event({ev}) in its step {ev_at} and replies None at step {none_at}; run ended with: {r['outcome'][:120]} (S0 stepped at {steps})"])


def pending_event_family(out):
    n = 0
    for ev_at, ev, none_at in ((0, 2, 0), (0, 3, 1), (1, 4, 2), (0, 4, 0)):
        n += 1
        v = pending_event_one(ev_at, ev, none_at)
        if v:
            out.violations.append(v); return n
    return n


def stale_time_family(out):
    n = 0
    for typ in ('time-based', 'hybrid'):
        for j in (1, 2):
            n += 1
            v = stale_time_one(j, typ)
            if v:
                out.violations.append(v); return n
    return n


def spelling_family(out):
    n = 0
    for sp in SPELLINGS:
        for j in (0, 2):
            n += 1
            v = spelling_one(sp, j)
            if v:
                out.violations.append(v); return n
    return n


def replay(path, out):
    import json
    r = json.load(open(path))
    if r.get('kind') == 'stale_time':
        v = stale_time_one(r['step_index'], r['sim_type'])
        print(v['observed'] if v else 'the run aborted naming the offender')
        if v: print(f'VIOLATION property=C13 replay={path}')
        return 1 if v else 0
    if r.get('kind') == 'none_with_pending_event':
        c = r['cfg']['sims'][0]; (ev_at, evs), = c['events'].items()
        v = pending_event_one(int(ev_at), evs[0], c['none_at'][0], r['cfg']['until'])
        print(v['observed'] if v else 'the run aborted naming the offender')
        if v: print(f'VIOLATION property=C13 replay={path}')
        return 1 if v else 0
    if r.get('kind') == 'spelling':
        v = spelling_one(r['spelling'], r['step_index'])
        print(v['observed'] if v else 'refused at start, or the run aborted naming the offender')
        if v: print(f'VIOLATION property=C13 replay={path}')
        return 1 if v else 0
    return sched_check.replay_trace(path, 'C13', monitors.P_C13, KINDS)
