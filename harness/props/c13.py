"""C13 - runtime validation of replies. Proof: coq/Props/C13.v. Tie: trace validation with one malformed reply injected per case (kind x step index x simulator)."""
from .. import common, sched_check, monitors, gen

KINDS = ['impl_err:outtime', 'impl_err:reply', 'model_err:outtime', 'model_err:reply', 'outcome']


def nontrivial(case, run, val):
    m = case.get('malformed')
    return bool(m) and any(l[0] == 'BEGIN' and l[1] == f'S{m[0]}' and l[2][0] == m[1] for l in run.log)


def features(case, run, val):
    f = ['groups' if any(case['grp']) else 'flat']
    f += sorted({'edge:' + e['kind'] for e in case['edges']})
    if any(e.get('async') for e in case['edges']): f.append('async')
    f.append('outcome:' + val.impl_kind)
    return f



def case_gen(rng, k):
    case = gen.gen_case(rng, groups=True, malformed=True)
    if k % 3 == 2: case['debug'] = True        # World(debug=True): the scheduler's step/get_outputs are wrapped by mosaik._debug
    return case


def run(out, info, tier, seed):
    out.trusted_base = common.COMMON_TRUSTED + [
        'modelled by hand: sim_process/next_step_settled/wait_for_dependencies/step/get_outputs/notify_dependencies/advance_progress/'
        'get_max_advance (Sched/Timing.v), World.connect tables and cache_triggering_ancestors (Static/Build.v, Sched/Link.v)',
        'assumed of asyncio: a task runs atomically between suspensions; futures wake their waiters (wake-up liveness is checked by the quiescence test)',
        'theorem premise static_ok (shape facts; the ancestors table dominates every trigger path) is checked per scenario by comparing the model-built tables with the implementation, not yet discharged by a closure theorem']
    out.assumptions = ['simulators are an oracle: any reply sequence (event list); delays that are compared have equal shape (convex group scenarios)']
    sched_check.sched_property(out, info, tier, seed, 'C13', KINDS, monitors.P_C13, gen_opts={'groups': True, 'malformed': True}, case_gen=case_gen,
                               ncases=(110, 1500), variants=[(True, True), (False, False)], nontrivial=nontrivial, features=features,
                               known_match=None, hyp=None,
                               extra_obligations=[('Sched.Inv (invariant preserved by every event)', 'Sched/Inv'),
                                                  ('Sched.Guards / Sched.Final', 'Sched/Final')])
    out.coverage['nontrivial_rule'] = 'the step carrying the malformed reply was actually executed'


def replay(path, out):
    return sched_check.replay_trace(path, 'C13', monitors.P_C13, KINDS)
