"""C17 - real-time pacing and external events (partial by nature).  Proof: coq/Props/C17.v (integer-clock arithmetic).
Check: the real scheduler on a virtual clock (event loop whose time() jumps to the next timer when idle; scheduler.perf_counter
patched to it): begin times against the pacing bound and the model, too-slow reports against the model's rt_check, set_event
decisions, completion without internal error; grouped and unconnected simulators included (F15, F19)."""
import math, asyncio, collections, itertools, json, random, signal, time as _time, warnings
warnings.simplefilter('ignore')
from .. import common
import mosaik, mosaik_api_v3, mosaik.scheduler as sched
from loguru import logger

SCALE = 1024          # virtual seconds -> integer ticks (rt factors, resolutions and durations are dyadic)
LOG = []


class VLoop(asyncio.SelectorEventLoop):
    """event loop on a virtual clock: when idle, jump to the next timer instead of sleeping"""
    def __init__(self): super().__init__(); self._vt = 0.0
    def time(self): return self._vt
    def _run_once(self):
        if not self._ready and self._scheduled:
            live = [h._when for h in self._scheduled if not h._cancelled]
            if live and min(live) > self._vt: self._vt = min(live)
        super()._run_once()


class RTSim(mosaik_api_v3.Simulator):
    def __init__(self):
        super().__init__({'api_version': '3.0', 'type': 'time-based', 'models': {'M': {'public': True, 'params': [], 'attrs': ['i', 'po', 'ti']}}})
    def init(self, sid, time_resolution=1.0, step_size=1, duration=0.0, typ='time-based', events=None, self_steps=True, flag=True, external=None, durations=None, setup_delay=0.0, none_at=None, gd_durations=None, silent=False):
        self.gd_durs = gd_durations or {}     # per step time: how long the get_data request of that step takes
        self.silent = silent                  # get_data returns no values (nothing is triggered downstream)
        self.none_at = set(none_at or [])       # step times whose reply is None whatever self_steps says (C13's real-time family)
        self.setup_delay = setup_delay        # setup_done() takes that long (a simulator that loads data before the run starts)
        self.durs = durations or {}        # per step time: how long that step takes (overrides duration)
        self.sid = sid; self.ss = step_size; self.dur = duration; self.events = dict(events or {}); self.self_steps = self_steps
        self.external = external or []        # [(seconds after setup_done, event time)]: set_event calls made from OUTSIDE a step (an external event source)
        self.meta['type'] = typ
        if typ == 'event-based': self.meta['models']['M']['attrs'] = ['ti', 'po']
        elif typ == 'hybrid': self.meta['models']['M']['trigger'] = ['ti']
        if flag: self.meta['set_events'] = True      # (the flag is optional: set_event must work without it as well)
        return self.meta
    def create(self, num, model): return [{'eid': 'e', 'type': model}]
    def setup_done(self):
        loop = asyncio.get_event_loop()
        for delay, ev in self.external: loop.call_later(delay, self._inject, delay, ev)
        if self.setup_delay: yield asyncio.sleep(self.setup_delay)
    def _inject(self, delay, ev):
        def done(f):
            LOG.append(('SETEVENT', self.sid, ('ext', delay), ev, 'ok' if f.cancelled() or f.exception() is None else type(f.exception()).__name__))
        asyncio.ensure_future(self.mosaik.set_event(ev)).add_done_callback(done)
    def step(self, t, inputs, max_advance):
        LOG.append(('BEGIN', self.sid, t, asyncio.get_event_loop().time()))
        self.t_now = t
        for ev in self.events.pop(str(t), []):        # (each list is used once: a re-step at the same time does not ask again)
            try:
                yield self.mosaik.set_event(ev)
                LOG.append(('SETEVENT', self.sid, t, ev, 'ok'))
            except Exception as e:
                LOG.append(('SETEVENT', self.sid, t, ev, type(e).__name__)); raise
        d = self.durs.get(str(t), self.dur)
        if d: yield asyncio.sleep(d)
        LOG.append(('END', self.sid, t, asyncio.get_event_loop().time()))
        if t in self.none_at: return None
        return (t + self.ss) if self.self_steps else None
    def get_data(self, outputs):
        d = self.gd_durs.get(str(self.t_now))
        if d:
            LOG.append(('GD', self.sid, self.t_now, asyncio.get_event_loop().time()))
            yield asyncio.sleep(d)
        return {'e': {}} if self.silent else {'e': {'po': 0}}


def trial(cfg):
    """cfg: rt (None or float), res, until, strict, sims: [{step_size, duration, group, typ, events, self_steps}], connect: [(a,b)]"""
    LOG.clear()
    loop = VLoop(); asyncio.set_event_loop(loop)
    w = mosaik.World({'S': {'python': 'harness.props.c17:RTSim'}}, skip_greetings=True, asyncio_loop=loop, time_resolution=cfg['res'])
    ents = []
    for i, s in enumerate(cfg['sims']):
        kw = dict(step_size=s.get('step_size', 1), duration=s.get('duration', 0.0), typ=s.get('typ', 'time-based'), events=s.get('events'), self_steps=s.get('self_steps', True), flag=s.get('flag', True), external=s.get('external'), durations=s.get('durations'), setup_delay=s.get('setup_delay', 0.0), none_at=s.get('none_at'), gd_durations=s.get('gd_durations'), silent=s.get('silent', False))
        if s.get('group'):
            with w.group(): ents.append(w.start('S', sim_id=f'S{i}', **kw).M())
        else:
            ents.append(w.start('S', sim_id=f'S{i}', **kw).M())
    for c in cfg.get('connect', []):
        a, b = c[0], c[1]
        if len(c) == 2: w.connect(ents[a], ents[b], ('po', 'i'))
        elif c[2] == 'trig': w.connect(ents[a], ents[b], ('po', 'ti'))                      # triggering connection
        else: w.connect(ents[a], ents[b], ('po', 'ti'), time_shifted=c[3])                 # 'trig_ts': time-shifted triggering connection
    for i, s in enumerate(cfg['sims']):
        if s.get('typ') == 'event-based' and s.get('initial', True): w.set_initial_event(f'S{i}', s.get('initial_at', 0))
    real = sched.perf_counter; sched.perf_counter = loop.time
    msgs = []; hid = logger.add(lambda m: msgs.append(str(m)), level='WARNING')
    real_check = sched.rt_check
    def rt_check(rt_factor, rt_start, rt_strict, sim):
        # (observation only: WHICH simulator's step is reported as too slow)
        n0 = sum('too slow' in m for m in msgs)
        try:
            real_check(rt_factor, rt_start, rt_strict, sim)
        except RuntimeError:
            LOG.append(('TOOSLOW', sim.sid, sim.last_step.time)); raise
        if sum('too slow' in m for m in msgs) > n0: LOG.append(('TOOSLOW', sim.sid, sim.last_step.time))
    sched.rt_check = rt_check
    def alarm(sig, frm): raise TimeoutError('run() did not terminate (watchdog)')
    signal.signal(signal.SIGALRM, alarm); signal.alarm(10)
    try:
        w.run(cfg['until'], rt_factor=cfg['rt'], rt_strict=cfg['strict'], print_progress=False); out = 'returned'
    except TimeoutError:
        out = 'HANG'
    except BaseException as e:
        out = type(e).__name__ + ':' + str(e)[:80]
        try:
            if not w.loop.is_closed(): w.shutdown()
        except BaseException: pass
    finally:
        signal.alarm(0)
        sched.perf_counter = real; sched.rt_check = real_check; logger.remove(hid)
    return dict(outcome=out, log=list(LOG), too_slow=sum('too slow' in m for m in msgs), ignored=sum('after simulation end' in m for m in msgs))


def monitor(cfg, r):
    bad = []
    rt = cfg['rt']; until = cfg['until']
    if rt is None:
        if any(s_.get('events') for s_ in cfg['sims']):
            if not r['outcome'].startswith('SimulationError'): bad.append(f"set_event outside real-time mode was not refused: {r['outcome']}")
        elif r['outcome'] != 'returned': bad.append(f"run failed: {r['outcome']}")
        return bad
    rr = rt * cfg['res']
    # the clock of the run starts when every simulator has answered setup_done (times in the log are those of the event loop)
    T0 = max([s_.get('setup_delay', 0.0) for s_ in cfg['sims']] + [0.0])
    begins = [(l[0], l[1], l[2], l[3] - T0) for l in r['log'] if l[0] == 'BEGIN']
    for _, sid, t, c in begins:
        if t > 0 and not c > rr * (t - 1): bad.append(f'{sid} began its step for t={t} at {c}s, not after rt_factor*time_resolution*(t-1) = {rr * (t - 1)}s')
    instant = all(not s.get('duration') and not s.get('durations') for s in cfg['sims'])
    if instant:
        # with instantly answering simulators a step for t begins inside its slot, or at most one polling period per
        # simulator late (known finding F20 is "one polling period late"; anything beyond that is a different failure)
        slack = rt * len(cfg['sims']) + 1e-9
        for _, sid, t, c in begins:
            if c > rr * t + slack:
                bad.append(f'{sid} began its step for t={t} at {c}s, more than {len(cfg["sims"])} polling period(s) after its real-time slot {rr * t}s although every simulator answers instantly')
    expected_fail = cfg['strict'] and not instant
    if r['outcome'] == 'HANG': bad.append('run() did not terminate')
    elif r['outcome'] != 'returned' and not (expected_fail and r['outcome'].startswith('RuntimeError')):
        bad.append(f"real-time run with compliant simulators failed: {r['outcome']}")
    if instant and r['too_slow']: bad.append(f"simulators answer instantly but {r['too_slow']} too-slow reports were issued" + (f" (for {sorted({(l[1], l[2]) for l in r['log'] if l[0] == 'TOOSLOW'})})" if any(l[0] == 'TOOSLOW' for l in r['log']) else ''))
    if instant and r['outcome'].startswith('RuntimeError'): bad.append('rt_strict aborted a run whose simulators answer instantly')
    # external events: a future t < until causes a step at t; t >= until is ignored with a warning
    for n_, l in enumerate(r['log']):
        if l[0] == 'SETEVENT' and l[4] == 'ok':
            _, sid, t0, ev, _ = l
            inside = not isinstance(t0, tuple)
            if isinstance(t0, tuple): t0 = math.ceil(max(0.0, t0[1] - T0) / rr)       # an external call made `delay` seconds after the start: the clock then shows ceil(delay / rr)
            stepped = any(b[1] == sid and b[2] == ev for b in begins)
            if t0 < ev < until and not stepped and r['outcome'] == 'returned': bad.append(f'{sid}: set_event({ev}) at step {t0} did not cause a step at {ev}')
            if inside and ev == t0 and ev < until and r['outcome'] == 'returned' and not any(x[0] == 'BEGIN' and x[1] == sid and x[2] == ev for x in r['log'][n_ + 1:]):
                # an event for the time of the step that is being performed: it was accepted (no error, no warning), so the
                # simulator must be stepped at that time once more
                bad.append(f'{sid}: set_event({ev}) made during the step at {t0} was accepted but no further step at {ev} followed')
            if ev >= until and stepped: bad.append(f'{sid}: event at {ev} >= until was executed')
    n_late = sum(1 for l in r['log'] if l[0] == 'SETEVENT' and l[4] == 'ok' and l[3] >= until)
    if n_late and not r['ignored']: bad.append('an event at or after until was ignored without a warning')
    return bad


def configs(tier, rng):
    out = []
    rts = [0.5, 1.0, 2.0, 0.25]; ress = [1.0, 0.5, 2.0]
    for rt in rts:
        for res in ress:
            for strict in (False, True):
                out.append(dict(rt=rt, res=res, until=5, strict=strict, sims=[{}, {'step_size': 2}], connect=[(0, 1)]))
                out.append(dict(rt=rt, res=res, until=4, strict=strict, sims=[{}, {}], connect=[]))                       # unconnected (F19)
                out.append(dict(rt=rt, res=res, until=4, strict=strict, sims=[{'group': True}, {}], connect=[(0, 1)]))    # grouped (F15)
                out.append(dict(rt=rt, res=res, until=6, strict=strict, sims=[{}, {'typ': 'event-based', 'self_steps': False, 'events': {'0': [3, 6, 9]}}], connect=[]))
                out.append(dict(rt=rt, res=res, until=6, strict=strict, sims=[{'group': True, 'typ': 'event-based', 'self_steps': False, 'events': {'0': [2, 4]}}, {}], connect=[]))
    for rt in rts:
        # an idle simulator with a far-away next step next to one that receives external events
        out.append(dict(rt=rt, res=1.0, until=12, strict=False, sims=[{'typ': 'event-based', 'self_steps': False, 'events': {'0': [4]}}, {'step_size': 8}], connect=[(0, 1)]))
        out.append(dict(rt=rt, res=1.0, until=12, strict=False, sims=[{'typ': 'event-based', 'self_steps': False, 'events': {'0': [3, 5]}}, {'step_size': 6}, {'step_size': 11}], connect=[(0, 1), (0, 2)]))
        out.append(dict(rt=rt, res=1.0, until=10, strict=False, sims=[{'step_size': 3}, {'step_size': 7}], connect=[(0, 1)]))
    for rt in rts:
        # an external event source: set_event is called from outside any step, for an event-based simulator that has nothing
        # scheduled and nothing connected (a controller), with and without the optional 'set_events' entry in its meta
        for flag in (True, False):
            ctl = {'typ': 'event-based', 'self_steps': False, 'flag': flag}
            out.append(dict(rt=rt, res=1.0, until=12, strict=False, sims=[{}, dict(ctl, initial=False, external=[(2.5 * rt, 5), (5.5 * rt, 8)])], connect=[]))
            out.append(dict(rt=rt, res=1.0, until=10, strict=False, sims=[dict(ctl, initial=False, external=[(1.5 * rt, 4), (1.75 * rt, 7)])], connect=[]))
            out.append(dict(rt=rt, res=1.0, until=10, strict=False, sims=[dict(ctl, external=[(3.5 * rt, 6)]), {'step_size': 3}], connect=[(0, 1)]))
            out.append(dict(rt=rt, res=1.0, until=9, strict=False, sims=[dict(ctl, events={'0': [3]}), {}], connect=[]))
    for rt in rts:
        # a TIME-BASED simulator (it steps by itself every 5 or 3 time units) that also receives external events: from inside a
        # step, and from outside for a time after its next regular step
        out.append(dict(rt=rt, res=1.0, until=12, strict=False, sims=[{'step_size': 5, 'events': {'0': [3], '5': [7]}}], connect=[]))
        out.append(dict(rt=rt, res=1.0, until=12, strict=False, sims=[{'step_size': 5, 'external': [(0.5 * rt, 7)]}, {}], connect=[]))
        out.append(dict(rt=rt, res=1.0, until=10, strict=False, sims=[{'step_size': 3, 'events': {'0': [1, 2]}, 'external': [(2.5 * rt, 8)]}, {'step_size': 2}], connect=[(0, 1)]))
    for rt in rts:
        # a slow setup_done(): the clock of the run starts when the simulators are ready, whoever took long to get there
        ctl = {'typ': 'event-based', 'self_steps': False, 'initial': False}
        out.append(dict(rt=rt, res=1.0, until=8, strict=False, sims=[{}, dict(ctl, external=[(8.5 * rt, 6)]), {'setup_delay': 3.5 * rt}], connect=[]))
        out.append(dict(rt=rt, res=1.0, until=8, strict=False, sims=[{'setup_delay': 2.5 * rt}, dict(ctl, external=[(6.5 * rt, 5)])], connect=[]))
        out.append(dict(rt=rt, res=0.5, until=8, strict=False, sims=[{}, {'step_size': 2, 'setup_delay': 4.25 * rt}, dict(ctl, external=[(5.25 * rt, 4)])], connect=[(0, 1)]))
    for rt in rts:
        # an event for the very time of the step in progress (a re-step "now"), alone and together with later ones
        ev = {'typ': 'event-based', 'self_steps': False}
        out.append(dict(rt=rt, res=1.0, until=6, strict=False, sims=[dict(ev, events={'0': [1], '1': [1, 3]}), {}], connect=[]))
        out.append(dict(rt=rt, res=0.5, until=6, strict=False, sims=[dict(ev, group=True, events={'0': [2], '2': [2]}), {'step_size': 2}], connect=[(0, 1)]))
        out.append(dict(rt=rt, res=1.0, until=5, strict=False, sims=[dict(ev, events={'0': [0, 2]})], connect=[]))
    for rt in rts:
        # several external events pending at once, requested out of order
        ev = {'typ': 'event-based', 'self_steps': False}
        out.append(dict(rt=rt, res=1.0, until=9, strict=False, sims=[dict(ev, events={'0': [2, 6, 4]}), {}], connect=[]))
        out.append(dict(rt=rt, res=1.0, until=10, strict=False, sims=[dict(ev, events={'0': [7, 2, 5, 3]}), {'step_size': 4}], connect=[(0, 1)]))
        out.append(dict(rt=rt, res=0.5, until=8, strict=False, sims=[dict(ev, events={'0': [5, 3], '3': [6, 4]}), {}], connect=[]))
    for rt in rts:
        # triggered simulators behind an ancestor whose next step is far away: own queued steps (external events, self-steps)
        # and time-shifted triggers must still be paced by the clock
        ev = {'typ': 'event-based', 'self_steps': False}
        out.append(dict(rt=rt, res=1.0, until=12, strict=False, sims=[{'step_size': 10}, dict(ev, events={'0': [2], '2': [4]})], connect=[(0, 1, 'trig')]))
        out.append(dict(rt=rt, res=1.0, until=8, strict=False, sims=[{'step_size': 5}, {'typ': 'hybrid', 'step_size': 1}], connect=[(0, 1, 'trig')]))
        out.append(dict(rt=rt, res=1.0, until=9, strict=False, sims=[{'step_size': 4}, {'typ': 'hybrid', 'step_size': 1}], connect=[(0, 1, 'trig_ts', 3)]))
        out.append(dict(rt=rt, res=1.0, until=9, strict=False, sims=[{'step_size': 4}, {'typ': 'hybrid', 'step_size': 2}], connect=[(0, 1, 'trig_ts', 2)]))
        out.append(dict(rt=rt, res=1.0, until=10, strict=False, sims=[{'step_size': 6}, dict(ev, events={'0': [3, 5]}), {}], connect=[(0, 1, 'trig'), (1, 2)]))
        out.append(dict(rt=rt, res=0.5, until=10, strict=True, sims=[{'step_size': 7, 'group': True}, dict(ev, events={'0': [2], '2': [5, 12]})], connect=[(0, 1, 'trig')]))
    for rt in rts:
        # a lone simulator whose every step ends a fraction of a step length after its deadline (late, but by less than a step)
        for frac in (0.5, 0.25):
            for strict in (False, True):
                out.append(dict(rt=rt, res=1.0, until=5, strict=strict, sims=[{'duration': rt * frac}], connect=[]))
        out.append(dict(rt=rt, res=1.0, until=6, strict=False, sims=[{'duration': rt * 0.5, 'step_size': 2}, {'step_size': 3}], connect=[]))
    for rt in rts:
        out.append(dict(rt=rt, res=1.0, until=4, strict=False, sims=[{'duration': rt * 1.5}, {}], connect=[(0, 1)]))     # genuinely slow
        out.append(dict(rt=rt, res=1.0, until=4, strict=True, sims=[{'duration': rt * 1.5}, {}], connect=[(0, 1)]))
        out.append(dict(rt=rt, res=1.0, until=4, strict=True, sims=[{'duration': rt * 0.5}, {}], connect=[(0, 1)]))      # slow but within the period
    for rt in rts:
        # a step that is answered in time whose OUTPUTS take a while to collect (a get_data of half or three quarters of a
        # period; nothing downstream is triggered): the step is not too slow, and the next step still begins on time
        sink = {'typ': 'event-based', 'self_steps': False, 'initial': False}
        for strict in (False, True):
            out.append(dict(rt=rt, res=1.0, until=6, strict=strict, sims=[{'silent': True, 'gd_durations': {'2': rt * 0.5}}, sink], connect=[(0, 1, 'trig')]))
            out.append(dict(rt=rt, res=1.0, until=7, strict=strict, sims=[{'silent': True, 'step_size': 2, 'gd_durations': {'2': rt * 0.75, '4': rt * 1.75}}, sink], connect=[(0, 1, 'trig')]))
    for rt in rts:
        # a successor that polls for its (initial) step at 1 while a slow ancestor holds its progress back, next to a fast
        # predecessor that waits (lazily) for the same progress value of that successor: both waits concern the same time
        slow = {'durations': {'0': rt * 3.5}}
        late = {'typ': 'event-based', 'self_steps': False, 'initial_at': 1}
        out.append(dict(rt=rt, res=1.0, until=4, strict=False, sims=[{}, slow, late], connect=[(0, 2, 'trig'), (1, 2, 'trig')]))
        out.append(dict(rt=rt, res=1.0, until=5, strict=False, sims=[{'silent': True}, slow, dict(late, initial_at=2)], connect=[(0, 2, 'trig'), (1, 2, 'trig')]))
    for evs in ([2], [4], [9], [3, 7]):
        # set_event outside real-time mode is an error - whatever the requested time (before, at or after until)
        out.append(dict(rt=None, res=1.0, until=4, strict=False, sims=[{'typ': 'event-based', 'self_steps': False, 'events': {'0': evs}}, {}], connect=[]))
    out.append(dict(rt=None, res=1.0, until=4, strict=False, sims=[{}, {}], connect=[(0, 1)]))
    if tier == 'thorough':
        for _ in range(300):
            n = rng.randint(1, 3)
            sims = [dict(step_size=rng.choice([1, 2, 3]), duration=rng.choice([0, 0, 0.25, 0.5, 1.0]), group=rng.random() < 0.3) for _ in range(n)]
            conn = [(a, b) for a in range(n) for b in range(a + 1, n) if rng.random() < 0.5]
            out.append(dict(rt=rng.choice(rts), res=rng.choice(ress), until=rng.randint(2, 7), strict=rng.random() < 0.3, sims=sims, connect=conn))
    return out


def correspondence(cfg, r, model):
    """begin times and too-slow reports against the extracted integer-clock model"""
    bad = []
    if cfg['rt'] is None: return bad, 0
    R = int(round(cfg['rt'] * cfg['res'] * SCALE)); n = 0
    T0 = max([s_.get('setup_delay', 0.0) for s_ in cfg['sims']] + [0.0])
    for l in r['log']:
        if l[0] == 'BEGIN':
            _, sid, t, c = l; n += 1
            if model.ask(f'R_BEGIN {t} {int(round((c - T0) * SCALE))} {R}') != '1':
                bad.append(f'{sid} began t={t} at {c}: the model does not allow it yet')
    # too-slow: the model's rt_check at each END
    expect = 0
    for l in r['log']:
        if l[0] == 'END':
            _, sid, t, c = l; n += 1
            if model.ask(f'R_CHECK 1 {R} {int(cfg["strict"])} {int(round((c - T0) * SCALE))} {t}') != 'intime': expect += 1
    got = r['too_slow'] + (1 if r['outcome'].startswith('RuntimeError') else 0)
    if cfg['strict']:
        if (expect > 0) != (got > 0): bad.append(f'too-slow: model expects {"an" if expect else "no"} abort, implementation: {r["outcome"][:60]}')
    elif expect != got:
        bad.append(f'too-slow reports: model {expect}, implementation {got}')
    return bad, n


def run(out, info, tier, seed):
    rng = random.Random(seed)
    out.checker_cmd = 'make -C coq && coqc -Q coq MV coq/Props/C17.v'
    out.trusted_base = common.COMMON_TRUSTED + ['modelled: rt_progress = ceil(passed/rt), rt_check, set_event decision (Ext/RT.v, integer clock); NOT modelled: float rounding, timer accuracy, rt_start skew, the interplay with the scheduler (checked on the virtual clock)',
                                                'virtual clock: asyncio.SelectorEventLoop subclass + scheduler.perf_counter patched in the harness process']
    out.assumptions = ['rt factors, time resolutions and step durations are dyadic so that the virtual clock is exact']
    obl, log, broken = common.check_props_file('C17', info)
    for o in obl: out.add_obligation(o['name'], o['ok'], o['assumptions'])
    bad = common.hygiene()
    out.add_obligation('hygiene: no Admitted/admit/Axiom/Parameter/Unset Guard in coq/', not bad, '; '.join(bad[:5]))
    if broken: out.notes.append('broken files: ' + ', '.join(broken) + '\n' + log[-1500:])
    model = common.Model() if info.driver_ok else None
    if model is None: out.add_obligation('correspondence: extracted model available', False, info.driver_msg[-300:])
    kf = {f['id']: f for f in common.known_findings('C17')}
    f20 = []
    violations, mism = [], []; n = 0; ncorr = 0; hist = collections.Counter(); samples = []; nontriv = 0
    for cfg in configs(tier, rng):
        r = trial(cfg); n += 1
        hist[r['outcome'].split(':')[0]] += 1
        fails = monitor(cfg, r)
        consumers = {f'S{c[1]}' for c in cfg.get('connect', [])}
        late_sims = {l[1] for l in r['log'] if l[0] == 'TOOSLOW'}
        # (F20 is about CONSUMERS: a simulator that waits for a predecessor's output begins one polling period late)
        if fails and cfg.get('connect') and late_sims <= consumers and 'F20' in kf and all(('too-slow reports' in f) or ('rt_strict aborted' in f) or ('RuntimeError' in f) for f in fails):
            f20.append(fails[0]); fails = []
        if fails: violations.append(dict(kind='rt', config=cfg, observed=fails[:3], outcome=r['outcome']))
        if cfg['rt'] is not None and any(l[0] == 'BEGIN' and l[2] >= 2 for l in r['log']): nontriv += 1
        if model is not None:
            b, k = correspondence(cfg, r, model); ncorr += k
            if b: mism.append(dict(config=cfg, discrepancies=b[:3]))
        if len(samples) < 2: samples.append(dict(config=cfg, outcome=r['outcome'], first_events=[list(map(str, l)) for l in r['log'][:6]]))
    if f20: out.known_hits.append((kf['F20'], f'{len(f20)} connected real-time configurations with instant simulators: {f20[0]}'))
    # known finding F18: on the real clock the step at time 0 is always late
    if 'F18' in kf:
        rr = real_clock_strict()
        if rr.startswith('RuntimeError'):
            out.known_hits.append((kf['F18'], f'real clock, one instant simulator, rt_factor=0.01, rt_strict=True: {rr[:90]}'))
        else:
            out.notes.append('known finding F18 no longer reproduces: ' + rr)
    if model is not None:
        model.close()
        out.add_obligation('correspondence: begin times / too-slow reports on the virtual clock = extracted RT model', not mism, f'{ncorr} observations')
        if mism: out.notes.append('first disagreements: ' + json.dumps(mism[:2], default=str))
    for v in violations[:1]: out.violations.append(v)
    out.coverage = {'evaluations': n, 'distinct_nontrivial': nontriv, 'traces_validated_against_impl': ncorr,
                    'rule': 'rt_factor in {0.25,0.5,1,2} x time_resolution in {0.5,1,2} x rt_strict x scenarios (connected pair, unconnected pair, grouped simulator, external events before/at/after until, '
                            'slow simulators, non-real-time set_event) on a virtual clock; thorough adds 300 random configurations; non-trivial = a real-time run that reached a step t >= 2',
                    'samples': samples, 'outcome_histogram': dict(hist), 'monitor_failures': len(violations), 'correspondence_mismatches': len(mism)}


def real_clock_strict():
    LOG.clear()
    w = mosaik.World({'S': {'python': 'harness.props.c17:RTSim'}}, skip_greetings=True)
    w.start('S', sim_id='S0').M()
    try:
        w.run(2, rt_factor=0.01, rt_strict=True, print_progress=False); return 'returned'
    except BaseException as e:
        return type(e).__name__ + ':' + str(e)[:80]


def replay(path, out):
    r = json.load(open(path))
    if r.get('kind') != 'rt':
        print(json.dumps(r, indent=1)[:2000]); print('re-run ./check C17'); return 1
    res = trial(r['config']); fails = monitor(r['config'], res)
    print(res['outcome'], res['log'][:10]); [print('monitor:', f) for f in fails]
    if fails: print(f'VIOLATION property=C17 replay={path}')
    return 1 if fails else 0
