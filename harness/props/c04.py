"""C04 - schedule and configuration independence. Proof (partial): coq/Props/C04.v. Check: differential execution of the same
deterministic case under several schedules, start orders, lazy/cache/debug settings and (subset) remote transport; every
simulator must observe the same sequence of (time, inputs)."""
import collections, copy, json, os, random, subprocess, sys, tempfile, time
from .. import common, sched_check, monitors, gen, simlib, tracelib

KINDS = {'inputs', 'mirror', 'timemismatch', 'notdone', 'quiesce_enabled'}


def observations(run):
    per = collections.defaultdict(list)
    for l in run.log:
        if l[0] == 'BEGIN':
            # (mirror entities m1, m2, ... exist only in the in-process runs: they are checked against entity e inside each
            #  run, kind 'mirror'; the comparison across runs and transports is about entity e)
            per[l[1]].append((list(l[2]), json.dumps({eid: v for eid, v in l[4].items() if not str(eid).startswith('m')}, sort_keys=True)))
    return dict(per)


def remote_observations(case, lazy, cache, seed):
    """the same case with subprocess simulators (no gates; seeded sleeps)"""
    import mosaik
    logf = tempfile.mktemp(prefix='c04-', suffix='.log', dir=common.BUILD)
    cmd = f'{common.PY} -m harness.remote_sim %(addr)s'
    env = dict(os.environ)
    world = mosaik.World({'S': {'cmd': cmd, 'env': {'PYTHONPATH': f'{common.REPO}:{common.VERIF}', 'LOGURU_LEVEL': 'ERROR'}}}, cache=cache, skip_greetings=True,
                         max_loop_iterations=case.get('maxloop', 100))
    try:
        ents = {}
        grp = [tuple(g) for g in case['grp']]
        n = case['n']
        def start(i):
            ents[i] = world.start('S', sim_id=f'S{i}', beh=copy.deepcopy(case['beh'][i]), log=logf, seed=seed * 31 + i).M()
        def visit(path):
            for i in [i for i in range(n) if grp[i] == path]: start(i)
            for kp in sorted({g[:len(path) + 1] for g in grp if len(g) > len(path) and g[:len(path)] == path}):
                with world.group(): visit(kp)
        visit(())
        for e in case['edges']:
            kw = {}
            if e['kind'] == 'ts': kw['time_shifted'] = e.get('shift', 1)
            if e['kind'] == 'w': kw['weak'] = True
            if e.get('init'): kw['initial_data'] = {e['sa']: f"init{e['a']}-{e['b']}"}
            world.connect(ents[e['a']], ents[e['b']], (e['sa'], e['da']), **kw)
        for (i, t) in case.get('init', []): world.set_initial_event(f'S{i}', t)
        world.run(case['until'], print_progress=False, lazy_stepping=lazy)
    except BaseException as ex:
        try: world.shutdown()
        except Exception: pass
        return 'error:' + type(ex).__name__
    per = collections.defaultdict(list)
    if os.path.exists(logf):
        for line in open(logf):
            sid, t, inputs = json.loads(line)
            per[sid].append(([t], json.dumps(inputs, sort_keys=True)))
        os.remove(logf)
    return dict(per)


def same_group_difference(case, ref, obs):
    """do all values that differ between the two runs flow between simulators of the same group?"""
    grp = {f'S{k}': tuple(case['grp'][k]) for k in range(case['n'])}
    found = False
    for sid in ref:
        for a, b in zip(ref[sid], obs.get(sid, [])):
            if a == b: continue
            try: ia, ib = json.loads(a[1]), json.loads(b[1])
            except Exception: return True
            for eid in set(ia) | set(ib):
                for attr in set(ia.get(eid, {})) | set(ib.get(eid, {})):
                    va, vb = ia.get(eid, {}).get(attr, {}), ib.get(eid, {}).get(attr, {})
                    for src in set(va) | set(vb):
                        if va.get(src) != vb.get(src):
                            found = True
                            if grp.get(src.split('.')[0]) != grp[sid]: return False
            break
    return True


def compare(ref, obs, main_tier_only=False):
    diffs = []
    for sid in sorted(set(ref) | set(obs)):
        a, b = ref.get(sid, []), obs.get(sid, [])
        if main_tier_only:
            a = [([t[0]], i) for t, i in a]; b = [([t[0]], i) for t, i in b]
        if a != b:
            k = next((k for k in range(min(len(a), len(b))) if a[k] != b[k]), min(len(a), len(b)))
            diffs.append(f'{sid}: observation #{k} differs: {a[k] if k < len(a) else None} vs {b[k] if k < len(b) else None}')
    return diffs


def run(out, info, tier, seed):
    out.checker_cmd = 'make -C coq && coqc -Q coq MV coq/Props/C04.v'
    out.trusted_base = common.COMMON_TRUSTED + ['debug mode (_debug.py, networkx) and remote transport (sockets, JSON) are NOT modelled: compared by differential execution only']
    out.assumptions = ['deterministic behaviours = scripted by (time, sub-step index); hypotheses of C03 define the quantifier (unique_slots, persistent_complete); known findings F10/F11/F14/F17 classes are reported as such']
    obl, log, broken = common.check_props_file('C04', info)
    for o in obl: out.add_obligation(o['name'], o['ok'], o['assumptions'])
    bad = common.hygiene()
    out.add_obligation('hygiene: no Admitted/admit/Axiom/Parameter/Unset Guard in coq/', not bad, '; '.join(bad[:5]))
    if broken: out.notes.append('broken files: ' + ', '.join(broken) + '\n' + log[-1500:])
    model = common.Model() if info.driver_ok else None
    if model is None: out.add_obligation('correspondence: extracted model available', False, info.driver_msg[-300:])
    kf = {f['id']: f for f in common.known_findings('C04')}
    n = 120 if tier == "quick" else 1500
    nremote = 4 if tier == 'quick' else 40
    evaluations = 0; nontriv = set(); violations = []; known = {}; mism = []; hist = collections.Counter(); samples = []
    t0 = time.time()
    # the witnesses of the listed known findings come first: each is run under the same variants as a generated scenario
    import os
    pre = []
    for fid, fnd in kf.items():
        if fnd.get('status') == 'known' and isinstance(fnd.get('witness'), str) and os.path.exists(os.path.join(common.VERIF, fnd['witness'])):
            pre.append(json.load(open(os.path.join(common.VERIF, fnd['witness'])))['case'])
    # run in addition to the main stream: hybrid and event-based simulators that announce a self-step far ahead and, when a
    # trigger steps them in between, announce another one (the earlier announcement stays valid: both steps are performed -
    # with debug mode on or off)
    for j in range(10):
        xr = random.Random(seed * 4001 + j)
        xc = gen.gen_case(xr, groups=(j % 3 == 0), clean=1.0, maxn=4)
        for b in xc['beh']:
            if b.get('type') in ('hybrid', 'event-based') and 'self_steps' in b:
                b['self_steps'] = {str(tt): tt + xr.choice([1, 2, 3, 4, 5]) for tt in range(xc['until']) if xr.random() < 0.8}
        pre.append(xc)
    for k in range(-len(pre), n):
        crng = random.Random(seed * 1000003 + k)
        case = pre[k + len(pre)] if k < 0 else gen.gen_mixed_attr_case(crng) if k % 13 == 9 else gen.gen_forecast_case(crng) if k % 11 == 5 else gen.gen_sibling_reader_case(crng) if k % 9 == 7 else gen.gen_chain_case(crng) if k % 8 == 3 else gen.gen_fanin_case(crng) if k % 6 == 1 else gen.gen_parallel_case(crng) if k % 3 == 2 else gen.gen_case(crng, groups=True, clean=0.8, maxn=4)
        if k >= 0 and k % 5 == 4: case['mirror'] = crng.choice([1, 2])       # several entities per simulator, connected index by index
        variants = []
        for lazy in (True, False):
            for cache in (True, False):
                variants.append(dict(lazy=lazy, cache=cache, strategy=gen.pick_strategy(crng, case), seed=seed * 100 + k, rev=False, fine=False, debug=False))
        for i in range(case['n']):
            variants.append(dict(lazy=bool(i % 2), cache=True, strategy=f'starve:S{i}', seed=seed * 100 + k + 10 + i, rev=False, fine=False, debug=False))
        variants.append(dict(lazy=True, cache=True, strategy='random', seed=seed * 100 + k + 1, rev=True, fine=False, debug=False))
        for q in range(2):
            perm = list(range(case['n'])); crng.shuffle(perm)          # an arbitrary start order
            variants.append(dict(lazy=bool(q), cache=True, strategy='random', seed=seed * 100 + k + 7 + q, rev=perm, fine=False, debug=False))
        variants.append(dict(lazy=True, cache=True, strategy='random', seed=seed * 100 + k + 4, rev=False, fine=False, debug=False, instant='all'))
        variants.append(dict(lazy=True, cache=True, strategy='random', seed=seed * 100 + k + 5, rev=True, fine=False, debug=False, instant='all'))
        variants.append(dict(lazy=False, cache=True, strategy='random', seed=seed * 100 + k + 6, rev=False, fine=False, debug=False, instant=[f'S{i}' for i in range(case['n']) if crng.random() < 0.5]))
        variants.append(dict(lazy=True, cache=True, strategy='newest', seed=seed * 100 + k + 2, rev=False, fine=True, debug=False))
        variants.append(dict(lazy=True, cache=True, strategy='oldest', seed=seed * 100 + k + 3, rev=False, fine=False, debug=True))
        ref = None; refv = None
        ctx = None
        for v in variants:
            run_ = simlib.run_case(case, lazy=v['lazy'], cache=v['cache'], strategy=v['strategy'], seed=v['seed'], fine=v['fine'], rev=v['rev'], debug=v['debug'], instant=v.get('instant', ()))
            evaluations += 1
            kind, _ = tracelib.classify_outcome(run_)
            hist[kind] += 1
            if kind != 'ok':
                if ref is not None and kind not in ('scenario',):
                    violations.append(dict(kind='diff', case=case, flags_a=refv, flags_b=v, observed=[f'run ended with {kind} ({run_.outcome[:100]}) while the reference configuration completed']))
                break
            if model is not None:
                val = tracelib.validate(run_, case, model, v['lazy'], v['cache'])
                mine = [d for d in val.disc if d['kind'] in KINDS]
                if mine: mism.append(dict(kind='trace', case=case, flags=v, discrepancies=mine[:2]))
                if ctx is None: ctx = monitors.Ctx(case, model, v['cache'])
            obs = observations(run_)
            if ref is None:
                ref, refv = obs, v
                continue
            d = compare(ref, obs)
            if d:
                hv = monitors.hyp_C03(ctx, case) if ctx else []
                rec = dict(kind='diff', case=case, flags_a=refv, flags_b=v, observed=d[:3], violated_hypotheses=hv)
                fid = None
                if any(h.startswith('x:') for h in hv): continue
                for h, f in (('init_on_event_source', 'F17'), ('shared_init_slot', 'F10'), ('weak', 'F11'), ('nonmonotone', 'F14')):
                    if h in hv: fid = f; break
                if fid == 'F11' and not same_group_difference(case, ref, obs):
                    # F11 (a reader may see the value of a later sub-step of the same time) concerns readers that share the
                    # sub-step tier with the source; a reader outside the source's group waits for the whole time step
                    fid = None
                if fid and fid in kf and kf[fid]['status'] == 'known': known.setdefault(fid, rec)
                else: violations.append(rec)
            else:
                if any(len(x) > 1 for x in obs.values()) and case['edges']:
                    nontriv.add(json.dumps(case, sort_keys=True))
        if ref is not None and 0 <= k < nremote and not any(h for h in (monitors.hyp_C03(ctx, case) if ctx else [])):
            robs = remote_observations(case, True, True, seed + k)
            evaluations += 1
            hist['remote'] += 1
            if isinstance(robs, str):
                violations.append(dict(kind='diff', case=case, flags_a=refv, flags_b='remote', observed=[robs]))
            else:
                d = compare(ref, robs, main_tier_only=True)
                if d: violations.append(dict(kind='diff', case=case, flags_a=refv, flags_b='remote', observed=d[:3]))
        if len(samples) < 2 and ref:
            samples.append(dict(case=case, variants=[{k2: v2 for k2, v2 in v.items()} for v in variants], observations={s: o[:2] for s, o in ref.items()}))
        if tier == 'quick' and time.time() - t0 > 120: break
    if model is not None:
        model.close()
        out.add_obligation('correspondence: trace validation (inputs, popped times, completion) on every differential run', not mism, f'{evaluations} runs')
        if mism: out.notes.append(json.dumps(mism[0], default=str)[:3000])
    for v in violations[:1]: out.violations.append(v)
    for fid, rec in known.items(): out.known_hits.append((kf[fid], rec['observed'][0][:200]))
    out.coverage = {'evaluations': evaluations, 'distinct_nontrivial': len(nontriv), 'traces_validated_against_impl': evaluations if model else 0,
                    'rule': 'per generated case (80% satisfying the data-flow hypotheses): lazy x cache with different schedule strategies, reversed and two randomly permuted start orders (one case in thirteen feeds one destination attribute from a persistent and from an event output; one case in eight is a trigger chain of three or four hops whose simulator indices are a random permutation of the chain positions), '
                            'fine-grained interleaving, debug mode; a subset also with subprocess simulators (remote transport, seeded latencies); '
                            'non-trivial = all variants agreed on a case in which some simulator stepped more than once and connections exist',
                    'samples': samples, 'outcome_histogram': dict(hist), 'differences': len(violations), 'known_finding_hits': list(known)}


def replay(path, out):
    r = json.load(open(path))
    if r.get('kind') != 'diff':
        print(json.dumps(r, indent=1)[:3000]); print('re-run ./check C04'); return 1
    a, b = r['flags_a'], r['flags_b']
    ra = simlib.run_case(r['case'], lazy=a['lazy'], cache=a['cache'], strategy=a['strategy'], seed=a['seed'], fine=a['fine'], rev=a['rev'], debug=a['debug'], instant=a.get('instant', ()))
    if b == 'remote':
        ob = remote_observations(r['case'], True, True, 0)
        d = [ob] if isinstance(ob, str) else compare(observations(ra), ob, main_tier_only=True)
    else:
        rb = simlib.run_case(r['case'], lazy=b['lazy'], cache=b['cache'], strategy=b['strategy'], seed=b['seed'], fine=b['fine'], rev=b['rev'], debug=b['debug'], instant=b.get('instant', ()))
        d = compare(observations(ra), observations(rb))
    for x in d[:5]: print('difference:', x)
    if d: print(f'VIOLATION property=C04 replay={path}')
    return 1 if d else 0
