"""C08 - order-consistent delay arithmetic (tiered time).  Proof: coq/Props/C08.v over the model regenerated
from mosaik/tiered_time.py (tie: coq/Time/Tie.v).  Secondary tie + search: exhaustive small-scope comparison of
the extracted generated model with the Python classes, and the laws themselves evaluated on the Python classes."""
import itertools, json, os, random
from .. import common
from mosaik.tiered_time import TieredInterval as TI, TieredTime as TT
from mosaik.scenario import update_min


def intervals(maxlen, vals):
    out = []
    for L in range(1, maxlen + 1):
        for pre in range(1, maxlen + 1):
            for cut in range(1, min(pre, L) + 1):
                for ts in itertools.product(vals, repeat=L):
                    out.append((pre, cut, ts))
    return out


def mk(i):
    return TI(*i[2], cutoff=i[1], pre_length=i[0])


def s_int(i):
    return f'{i[0]} {i[1]} {len(i[2])} ' + ' '.join(map(str, i[2]))


def s_list(t):
    return f'{len(t)} ' + ' '.join(map(str, t)) if t else '0'


def py(f):
    try:
        return f()
    except AssertionError:
        return 'assert'


def fmt_bool(r):
    return 'assert' if r == 'assert' else ('ok 1' if r else 'ok 0')


def fmt_int(r):
    return 'assert' if r == 'assert' else f'ok {r.pre_length} {r.cutoff} {s_list(r.tiers)}'


def correspondence(ivs, times, rng, budget):
    """extracted Gen.* (translated from the source) vs the Python classes on the same arguments"""
    reqs, exp = [], []
    pairs = [(a, b) for a in ivs for b in ivs]
    if len(pairs) > budget:
        pairs = rng.sample(pairs, budget)
    for a, b in pairs:
        A, B = mk(a), mk(b)
        for cmd, f, fm in (('g_ilt', lambda: A < B, fmt_bool), ('g_ile', lambda: A <= B, fmt_bool),
                           ('g_igt', lambda: A > B, fmt_bool), ('g_ige', lambda: A >= B, fmt_bool),
                           ('g_ieq', lambda: A == B, fmt_bool), ('g_iadd', lambda: A + B, fmt_int)):
            reqs.append(f'{cmd} {s_int(a)} {s_int(b)}'); exp.append(fm(py(f)))
        r = py(lambda: update_min(A, B))
        reqs.append(f'g_updmin 1 {s_int(a)} {s_int(b)}')
        exp.append('assert' if r == 'assert' else ('ok none' if r is None else f'ok some {r.pre_length} {r.cutoff} {s_list(r.tiers)}'))
    tp = [(t, a) for t in times for a in ivs]
    if len(tp) > budget: tp = rng.sample(tp, budget)
    for t, a in tp:
        r = py(lambda: TT(*t) + mk(a))
        reqs.append(f'g_tadd {s_list(t)} {s_int(a)}'); exp.append('assert' if r == 'assert' else 'ok ' + s_list(r.tiers))
    tt = [(t, u) for t in times for u in times]
    if len(tt) > budget: tt = rng.sample(tt, budget)
    for t, u in tt:
        for cmd, f in (('g_tlt', lambda: TT(*t) < TT(*u)), ('g_tle', lambda: TT(*t) <= TT(*u)),
                       ('g_tgt', lambda: TT(*t) > TT(*u)), ('g_tge', lambda: TT(*t) >= TT(*u))):
            reqs.append(f'{cmd} {s_list(t)} {s_list(u)}'); exp.append(fmt_bool(py(f)))
    # constructor asserts
    for ts in [(), (0,), (1, 2), (0, 0, 0)]:
        for c in [None, 0, 1, 2, 3, 4]:
            for p in [None, 0, 1, 2, 3]:
                r = py(lambda: TI(*ts, cutoff=c, pre_length=p))
                so = lambda v: '0' if v is None else f'1 {v}'
                reqs.append(f'g_new {s_list(ts)} {so(c)} {so(p)}'); exp.append(fmt_int(r))
    got = common.batch_model(reqs)
    bad = [(q, e, g) for q, e, g in zip(reqs, exp, got) if e != g]
    return len(reqs), bad


def laws(ivs, times, rng, budget):
    """the statement of C08 evaluated on the Python classes (this is the search for a failing input)"""
    fails, known, n, nontriv = [], [], 0, set()
    shape = lambda i: (i[0], i[1], len(i[2]))
    byshape = {}
    for i in ivs: byshape.setdefault(shape(i), []).append(i)
    def record(kind, **kw):
        fails.append(dict(kind='call', law=kind, **{k: (list(v) if isinstance(v, tuple) else v) for k, v in kw.items()}))
    # trichotomy + transitivity + monotonicity for comparable (equal-shape) delays
    for sh, group in byshape.items():
        ts = [t for t in times if len(t) == sh[0]]
        pairs = [(a, b) for a in group for b in group]
        if len(pairs) > budget: pairs = rng.sample(pairs, budget)
        for a, b in pairs:
            A, B = mk(a), mk(b); n += 1
            r = py(lambda: (A < B, A == B, A > B))
            if r == 'assert' or sum(map(bool, r)) != 1:
                record('trichotomy', a=a, b=b, observed=str(r)); continue
            # the derived comparisons agree with `<` and `==`, and the minimum kept by update_min is the one that
            # never yields the later arrival
            q = py(lambda: (A <= B, A >= B))
            if q == 'assert' or bool(q[0]) != bool(r[0] or r[1]) or bool(q[1]) != bool(r[2] or r[1]):
                record('trichotomy', a=a, b=b, observed=f'(<, ==, >) = {r} but (<=, >=) = {q}'); continue
            u = py(lambda: update_min(A, B))
            kept = A if u is None else u
            for t in ts:
                x = py(lambda: (TT(*t) + kept, TT(*t) + A, TT(*t) + B))
                if u == 'assert' or x == 'assert' or x[0] > x[1] or x[0] > x[2]:
                    record('smaller_delay_never_later', a=a, b=b, t=t, observed=f'update_min(a, b) keeps {kept}: arrival {x[0] if x != "assert" else x} is later than with the other delay'); break
            if r[0]:
                nontriv.add(('lt', a, b))
                for t in ts:
                    x = py(lambda: (TT(*t) + A, TT(*t) + B))
                    if x == 'assert' or x[0] > x[1]:
                        record('smaller_delay_never_later', a=a, b=b, t=t, observed=str(x))
        triples = [(a, b, c) for a in group for b in group for c in group]
        if len(triples) > budget: triples = rng.sample(triples, budget)
        for a, b, c in triples:
            A, B, C = mk(a), mk(b), mk(c); n += 1
            if py(lambda: A < B and B < C and not A < C) is not False:
                record('transitivity', a=a, b=b, c=c)
    # never backwards
    for a in ivs:
        if min(a[2]) < 0: continue
        A = mk(a)
        for t in times:
            if len(t) != a[0]: continue
            n += 1
            r = py(lambda: TT(*t) + A)
            if r == 'assert' or r.tiers[:a[1]] < tuple(t[:a[1]]) or r.time < t[0]:
                record('never_backwards', a=a, t=t, observed=str(r))
            elif any(a[2]): nontriv.add(('nb', a, t))
    # associativity and action law wherever defined
    trip = [(a, b, c) for a in ivs for b in ivs if len(a[2]) == b[0] for c in ivs if len(b[2]) == c[0]]
    if len(trip) > budget: trip = rng.sample(trip, budget)
    for a, b, c in trip:
        A, B, C = mk(a), mk(b), mk(c); n += 1
        r = py(lambda: ((A + B) + C, A + (B + C)))
        if r == 'assert' or r[0] != r[1]:
            record('associativity', a=a, b=b, c=c, observed=str(r))
        else: nontriv.add(('assoc', a, b, c))
    duo = [(t, a, b) for a in ivs for b in ivs if len(a[2]) == b[0] for t in times if len(t) == a[0]]
    if len(duo) > budget: duo = rng.sample(duo, budget)
    for t, a, b in duo:
        A, B = mk(a), mk(b); n += 1
        r = py(lambda: ((TT(*t) + A) + B, TT(*t) + (A + B)))
        if r == 'assert' or r[0] != r[1]:
            record('action', t=t, a=a, b=b, observed=str(r))
        else: nontriv.add(('act', t, a, b))
    # tier values far outside the small scope (sub-step counters can be raised by max_loop_iterations, times are unbounded):
    # the order of tiered times is the order of their tier tuples, whatever the magnitudes; a smaller delay of full cutoff
    # never yields the later arrival
    BIG = [0, 1, 2, 255, 256, 1023, 1024, 1025, 65535, 65536, 2 ** 31 - 1, 2 ** 31, 2 ** 63, 2 ** 64 + 1]
    for L in (1, 2, 3, 4, 5, 6):        # (also longer than the exhaustive scope: three and more nested groups)
        for _ in range(max(200, budget // 10)):
            vals_ = BIG if rng.random() < 0.5 else [0, 1, 2, 3]
            a = tuple(rng.choice(vals_) for _ in range(L)); b = tuple(rng.choice(vals_) for _ in range(L))
            if rng.random() < 0.4: b = a[:-1] + (rng.choice(vals_),)
            n += 1
            r = py(lambda: (TT(*a) < TT(*b), TT(*a) == TT(*b), TT(*a) > TT(*b), TT(*a) <= TT(*b), TT(*a) >= TT(*b)))
            want = (a < b, a == b, a > b, a <= b, a >= b)
            if r == 'assert' or tuple(map(bool, r)) != want:
                record('trichotomy', a=[L, L, a], b=[L, L, b], observed=f'tiered times {a} and {b}: (<, ==, >, <=, >=) = {r}, the tier tuples give {want}'); continue
            A, B = mk((L, L, a)), mk((L, L, b))
            q = py(lambda: (A < B, A == B, A > B))
            if q == 'assert' or tuple(map(bool, q)) != want[:3]:
                record('trichotomy', a=[L, L, a], b=[L, L, b], observed=f'delays with tiers {a} and {b}: (<, ==, >) = {q}, the tier tuples give {want[:3]}'); continue
            if want[0]:
                t = tuple(rng.choice(vals_) for _ in range(L))
                x = py(lambda: (TT(*t) + A, TT(*t) + B))
                if x == 'assert' or x[0] > x[1] or not (x[0] < x[1]):
                    record('smaller_delay_never_later', a=[L, L, a], b=[L, L, b], t=t, observed=str(x))
                else: nontriv.add(('big', a, b))
    # mixed cutoffs: `<` answers True although the arrival is later (known finding F13)
    mixed = [(a, b) for a in ivs for b in ivs if a[0] == b[0] and len(a[2]) == len(b[2]) and a[1] != b[1]]
    if len(mixed) > budget: mixed = rng.sample(mixed, budget)
    for a, b in mixed:
        A, B = mk(a), mk(b)
        if py(lambda: A == B) is True:
            # two delays that compare equal must be interchangeable: the same arrival for every departure
            for t in times:
                if len(t) != a[0]: continue
                n += 1
                x = py(lambda: (TT(*t) + A, TT(*t) + B))
                if x == 'assert' or x[0] != x[1]:
                    record('trichotomy', a=a, b=b, t=t, observed=f'a == b is True although {t} + a = {x[0] if x != "assert" else x} and {t} + b = {x[1] if x != "assert" else x}'); break
        if py(lambda: A < B) is True:
            for t in times:
                if len(t) != a[0]: continue
                n += 1
                if TT(*t) + A > TT(*t) + B:
                    known.append(dict(a=list(a), b=list(b), t=list(t))); break
    return n, len(nontriv), fails, known


def acc_one(grouped, seq):
    import mosaik
    from mosaik.scenario import connect_interval
    from .. import simlib        # (silences mosaik's logger)
    slots = [('po', 'i'), ('eo', 'ti'), ('e2', 't2'), ('po', 't2')]
    w = mosaik.World({'S': {'python': 'harness.simlib:GSim'}}, skip_greetings=True)
    try:
        if grouped:
            with w.group():
                a = w.start('S', sim_id='S0', beh={'type': 'hybrid'}).M(); b = w.start('S', sim_id='S1', beh={'type': 'hybrid'}).M()
        else:
            a = w.start('S', sim_id='S0', beh={'type': 'hybrid'}).M(); b = w.start('S', sim_id='S1', beh={'type': 'hybrid'}).M()
        ga, gb = a.model_mock._factory._group, b.model_mock._factory._group
        each = []
        for (k, sh), (sa, da) in zip(seq, slots):
            kw = {}
            if k == 'ts': kw['time_shifted'] = sh
            if k == 'w': kw['weak'] = True
            if k != 'p' and da == 'i': kw['initial_data'] = {sa: 0}
            w.connect(a, b, (sa, da), **kw)
            each.append(connect_interval(ga, gb, sh if k == 'ts' else 0, 1 if k == 'w' else 0))
        stored = w.sims['S1'].input_delays[w.sims['S0']]
        if stored not in each or not all(stored <= d for d in each):
            return dict(kind='call', law='accumulated_min', grouped=grouped, connections=[list(x) for x in seq],
                        observed=f'input delay stored for the pair: {stored}; delays of the connections in connect order: {[str(d) for d in each]}')
    except Exception as e:
        return dict(kind='call', law='accumulated_min', grouped=grouped, connections=[list(x) for x in seq], observed=f'{type(e).__name__}: {e}'[:200])
    finally:
        w.shutdown()
    return None


def accumulated_min(tier):
    """the minimum over the delays of several connections between one ordered pair (World.connect_one, the anchor
    'update_min / min over delays'): whatever the order of the connect calls, the delay a consumer waits for must be one
    of the connections' delays and not larger than any of them - otherwise data on some connection arrives before the
    time mosaik waits for.  Evaluated on real World.connect calls (flat pair and a pair inside one group)."""
    import mosaik
    from mosaik.scenario import connect_interval
    from .. import simlib        # (silences mosaik's logger)
    fails = []; n = 0
    kinds = [('p', 0), ('ts', 1), ('ts', 2), ('ts', 3), ('w', 0)]
    if tier == 'quick':
        seqs = list(itertools.permutations(kinds, 2)) + list(itertools.permutations(kinds[:4], 3))
    else:
        seqs = [s for k in (2, 3, 4) for s in itertools.permutations(kinds, k)]
    slots = [('po', 'i'), ('eo', 'ti'), ('e2', 't2'), ('po', 't2')]
    for grouped in (False, True):
        for seq in seqs:
            if not grouped and any(k == 'w' for k, _ in seq): continue
            n += 1
            f = acc_one(grouped, seq)
            if f: fails.append(f)
    return n, fails


def closure_one(case, convex=True):
    """the delays cached for multi-hop trigger paths (World.cache_triggering_ancestors) against applying the delays of
    the hops one after the other: for every pair (src, dest) joined by a trigger path and every departure time t,
    t + cached(src, dest) must be the earliest of the hop-by-hop arrival times over the simple paths"""
    from .. import simlib
    from mosaik.exceptions import ScenarioError
    desc = dict(kind='call', law='path_closure', case=case)
    import signal
    world = simlib.build_world(case)
    def _alarm(sig, frm): raise simlib.Hang('closure did not return')
    signal.signal(signal.SIGALRM, _alarm); signal.alarm(20)      # (non-convex scenarios: known finding F9h)
    try:
        try:
            world.ensure_no_dataflow_cycles()
        except ScenarioError:
            return 'skip'
        # a closed path whose delays, applied one after the other, never move a departure time forward is a zero delay:
        # the comparison that decides "zero" must agree with the hop-by-hop application (the cycle check accepted the scenario)
        dhops = {}
        for sid, sim in world.sims.items():
            for pre, d in sim.input_delays.items(): dhops.setdefault(pre.sid, []).append((sid, d))
        def cycles(start, cur, seen, acc):
            for (nx, d) in dhops.get(cur, []):
                if nx == start: yield acc + [d]
                elif nx not in seen and nx > start: yield from cycles(start, nx, seen | {nx}, acc + [d])
        for start in list(dhops):
            for cyc in itertools.islice(cycles(start, start, {start}, []), 50):
                L0 = cyc[0].pre_length
                back = True
                for t in itertools.islice(itertools.product((0, 2), *[(0, 1)] * (L0 - 1)), 8):
                    x = TT(*t)
                    for d in cyc: x = x + d
                    if len(x) != L0 or x > TT(*t): back = False; break
                if back:
                    return dict(desc, observed=f'the closed path through {start} with delays {[str(d) for d in cyc]} never arrives later than it departs (no delay at all), '
                                               'yet the scenario was accepted as free of zero-delay cycles')
        if not convex: return None          # (the cached ancestor delays are only compared for convex scenarios: F9/F13)
        world.cache_triggering_ancestors()
        hops = {}; plen = {}
        for sid, sim in world.sims.items():
            for port, l in sim.triggers.items():
                for dest, d in l:
                    hops.setdefault(sid, []).append((dest.sid, d)); plen[sid] = d.pre_length
        def paths_to(src, dest):
            # simple paths src -> dest (simple cycles for src == dest)
            def go(cur, seen):
                for (nx, d) in hops.get(cur, []):
                    if nx == dest: yield [d]
                    if nx not in seen and nx != dest:
                        for rest in go(nx, seen | {nx}): yield [d] + rest
            return list(go(src, {src}))
        for dsid, dsim in world.sims.items():
            cached = {a.sid: d for a, d in dsim.triggering_ancestors.items()}
            for ssid in world.sims:
                ps = paths_to(ssid, dsid)
                if not ps and ssid not in cached: continue
                if bool(ps) != (ssid in cached):
                    return dict(desc, observed=f'{ssid}->{dsid}: {len(ps)} trigger path(s), cached delay: {cached.get(ssid)}')
                L = plen[ssid]
                for t in itertools.islice(itertools.product((0, 1, 3), *[(0, 1, 2)] * (L - 1)), 40):
                    t = TT(*t)
                    arr = []
                    for pth in ps:
                        x = t
                        for d in pth: x = x + d
                        arr.append(x)
                    if len({len(x) for x in arr}) != 1: return 'skip'
                    if t + cached[ssid] != min(arr):
                        return dict(desc, observed=f'{ssid}->{dsid}: departure {t} arrives at {min(arr)} hop by hop, the cached delay {cached[ssid]} gives {t + cached[ssid]}')
    except AssertionError as e:
        if 'incomparable' in str(e): return 'skip'
        return dict(desc, observed=f'AssertionError: {e}'[:200])
    except simlib.Hang:
        return 'skip'
    finally:
        signal.alarm(0); signal.signal(signal.SIGALRM, signal.SIG_DFL)
        world.shutdown()
    return None


def path_closure(tier, rng):
    from .. import gen, tracelib
    n = 0; fails = []
    total = 260 if tier == 'quick' else 4000
    k = 0
    while n < total and k < total * 6:
        k += 1
        r = rng.random()
        if r < 0.5:
            case = gen.gen_case(rng, groups=True)
        else:
            # chains through groups of equal depth, nested groups and the top level, every hop plain / time-shifted / weak
            places = [[0], [1], [0, 0], [0, 1], []]
            m = rng.randint(3, 5)
            grp = [list(rng.choice(places[:2] if rng.random() < 0.5 else places)) for _ in range(m)]
            edges = []
            for a in range(m - 1):
                for b in ([a + 1] + ([rng.randrange(m)] if rng.random() < 0.4 else [])):
                    if a == b: continue
                    common_g = bool(grp[a]) and bool(grp[b]) and grp[a][0] == grp[b][0]
                    kind = rng.choice(['p', 'p', 'ts'] + (['w', 'w'] if common_g else []))
                    edges.append(dict(a=a, b=b, sa=rng.choice(['eo', 'e2']), da=rng.choice(['ti', 't2']), kind=kind, shift=rng.choice([1, 2]) if kind == 'ts' else 0, init=False))
            if rng.random() < 0.4:
                # close the chain (or a part of it) into a cycle: accepted only if some connection on it delays
                a, b = rng.randrange(1, m), 0
                common_g = bool(grp[a]) and bool(grp[b]) and grp[a][0] == grp[b][0]
                kind = rng.choice(['p', 'p', 'p', 'ts'] + (['w'] if common_g else []))
                edges.append(dict(a=a, b=b, sa='e2', da='t2', kind=kind, shift=1 if kind == 'ts' else 0, init=False))
            case = dict(n=m, types=['hybrid'] * m, grp=grp, edges=edges, until=1, beh=[{'type': 'hybrid'} for _ in range(m)], init=[], maxloop=100)
        try:
            f = closure_one(case, convex=tracelib.convex(case))
        except Exception as e:
            f = dict(kind='call', law='path_closure', case=case, observed=f'{type(e).__name__}: {e}'[:200])
        if f == 'skip': continue
        n += 1
        if f: fails.append(f)
    return n, fails


def run(out, info, tier, seed):
    rng = random.Random(seed)
    out.checker_cmd = 'python harness/py2coq.py /repo coq/Gen && make -C coq (full .vo build) && coqc -Q coq MV coq/Props/C08.v'
    out.trusted_base = common.COMMON_TRUSTED + ['modelled: mosaik/tiered_time.py completely (both classes, constructor asserts, '
        'total_ordering derivations) and scenario.update_min, via the translator; __repr__ is skipped']
    out.assumptions = ['"comparable" is formalised as equal shape (pre_length, cutoff, length); tiers are unbounded integers in the theorems']
    obl, log, broken = common.check_props_file('C08', info)
    for o in obl: out.add_obligation(o['name'], o['ok'], o['assumptions'])
    for lemma in ['tie_new', 'tie_act', 'tie_tlt', 'tie_comp', 'tie_lt', 'tie_eq', 'tie_le', 'tie_gt', 'tie_update_min']:
        out.add_obligation('Time.Tie.' + lemma, info.translator_ok and info.vo_ok('Time/Tie'), 'see Print Assumptions of the C08 theorems (they depend on the tie)')
    bad = common.hygiene()
    out.add_obligation('hygiene: no Admitted/admit/Axiom/Parameter/Unset Guard in coq/', not bad, '; '.join(bad[:5]))
    if broken or not all(o['ok'] for o in obl):
        out.notes.append('broken files: ' + ', '.join(broken)); out.notes.append(log[-1500:])
    maxlen, vals, budget = (3, (0, 1, 2), 4000) if tier == 'quick' else (3, (0, 1, 2, 3), 60000)
    ivs = intervals(maxlen, vals)
    times = [t for L in range(1, maxlen + 1) for t in itertools.product(vals, repeat=L)]
    if tier == 'quick':
        ivs_c = rng.sample(ivs, 90)
    else:
        ivs_c = rng.sample(ivs, 400)
    ncorr, nbad = 0, []
    if info.driver_ok:
        ncorr, nbad = correspondence(ivs_c, times, rng, budget * 4)
        out.add_obligation('correspondence: extracted Gen.TieredTime = Python classes on the sampled small scope', not nbad,
                           f'{ncorr} calls compared')
        if nbad: out.notes.append('first disagreements: ' + json.dumps(nbad[:3]))
    else:
        out.add_obligation('correspondence: extracted model available', False, info.driver_msg[-300:])
    n, nontriv, fails, known = laws(ivs, times, rng, budget)
    n_acc, acc_fails = accumulated_min(tier)
    n += n_acc; fails = fails + acc_fails
    n_clo, clo_fails = path_closure(tier, random.Random(seed + 17))
    n += n_clo; fails = fails + clo_fails
    for f in fails[:1]:
        out.violations.append(f)
    kf = {f['id']: f for f in common.known_findings('C08')}
    if known and info.driver_ok:
        # F13 is about the pairs that the comparison as specified (Time/Spec.v ilt, proved equal to the translated __lt__)
        # orders this way; a pair that only the current source orders so is something else
        sp = common.batch_model([f"s_ilt {s_int(tuple(k_['a'][:2]) + (tuple(k_['a'][2]),))} {s_int(tuple(k_['b'][:2]) + (tuple(k_['b'][2]),))}" for k_ in known])
        other = [k_ for k_, r_ in zip(known, sp) if r_ != 'ok 1']
        known = [k_ for k_, r_ in zip(known, sp) if r_ == 'ok 1']
        for k_ in other[:1]:
            out.violations.append(dict(kind='call', law='smaller_delay_never_later', a=k_['a'], b=k_['b'], t=k_['t'],
                                       observed='a < b is True for delays of different cutoff that the specified order does not put this way, and t + a arrives later than t + b'))
    if known and 'F13' in kf:
        out.known_hits.append((kf['F13'], f"a<b is True but t+a > t+b for delays of different cutoff, e.g. a={known[0]['a']} b={known[0]['b']} t={known[0]['t']} ({len(known)} such pairs in scope)"))
    elif known:
        out.violations.append(dict(kind='call', law='smaller_delay_never_later(mixed cutoff)', **known[0]))
    out.coverage = {'evaluations': n + ncorr, 'distinct_nontrivial': nontriv,
                    'rule': f'all TieredIntervals with length<= {maxlen}, pre<= {maxlen}, tiers in {list(vals)} ({len(ivs)}) and all times of those lengths; '
                            'laws evaluated on every equal-shape pair (triples/compositions sampled to a budget); non-trivial = strictly ordered pair, '
                            'non-zero delay, or defined composition; correspondence on a seeded sample of pairs; the minimum over the delays of 2-4 parallel connections of one pair in every connect order (flat and in a group); '
                            f'the delays World.cache_triggering_ancestors caches for multi-hop trigger paths against hop-by-hop application on {n_clo} convex scenarios (groups of equal depth, nested groups)',
                    'samples': [{'law': 'trichotomy', 'a': list(ivs[len(ivs) // 2]), 'b': list(ivs[len(ivs) // 2 + 1])},
                                {'correspondence_request': f'g_ilt {s_int(ivs[5])} {s_int(ivs[7])}'}],
                    'traces_validated_against_impl': ncorr, 'exhaustive': True,
                    'law_failures': len(fails), 'mixed_cutoff_known_pairs': len(known)}


def replay(path, out):
    r = json.load(open(path))
    if r.get('kind') != 'call':
        print(json.dumps(r, indent=1)); print('obligation replay: re-run ./check C08'); return 1
    g = lambda k: mk(tuple(r[k][:2]) + (tuple(r[k][2]),)) if k in r else None
    print('replaying', r['law'], {k: r[k] for k in ('a', 'b', 'c', 't') if k in r})
    A, B = g('a'), g('b')
    if r['law'] == 'trichotomy':
        res = py(lambda: (A < B, A == B, A > B, A <= B, A >= B)); print('observed (<,==,>,<=,>=):', res)
        bad = res == 'assert' or sum(map(bool, res[:3])) != 1 or bool(res[3]) != bool(res[0] or res[1]) or bool(res[4]) != bool(res[2] or res[1])
        if 't' in r and py(lambda: A == B) is True:
            x = py(lambda: (TT(*r['t']) + A, TT(*r['t']) + B)); print('a == b is True; t + a, t + b:', x)
            bad = bad or x == 'assert' or x[0] != x[1]
        ta, tb = tuple(r['a'][2]), tuple(r['b'][2])
        if len(ta) == len(tb) and r['a'][:2] == r['b'][:2]:
            rt = py(lambda: (TT(*ta) < TT(*tb), TT(*ta) == TT(*tb), TT(*ta) > TT(*tb), TT(*ta) <= TT(*tb), TT(*ta) >= TT(*tb)))
            want = (ta < tb, ta == tb, ta > tb, ta <= tb, ta >= tb)
            print('tiered times with these tiers (<,==,>,<=,>=):', rt, 'tier tuples give', want)
            bad = bad or rt == 'assert' or tuple(map(bool, rt)) != want
    elif r['law'].startswith('smaller'):
        t = TT(*r['t']); u = update_min(A, B); kept = A if u is None else u
        res = (A < B, t + A, t + B, t + kept); print('a<b, t+a, t+b, t+(the one update_min keeps):', res)
        bad = (res[0] and res[1] > res[2]) or res[3] > res[1] or res[3] > res[2]
    elif r['law'] == 'path_closure':
        from .. import tracelib
        f = closure_one(r['case'], convex=tracelib.convex(r['case'])); print(f['observed'] if isinstance(f, dict) else 'cached delays agree with hop-by-hop application'); bad = isinstance(f, dict)
    elif r['law'] == 'accumulated_min':
        f = acc_one(r['grouped'], [tuple(x) for x in r['connections']]); print(f['observed'] if f else 'stored delay is the minimum'); bad = f is not None
    else:
        print('see law', r['law']); bad = True
    if bad: print(f'VIOLATION property=C08 replay={path}')
    return 1 if bad else 0
