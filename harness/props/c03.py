"""C03 - data-flow fidelity of step inputs. Proof (partial): coq/Props/C03.v. Full statement: reference semantics monitors.P_C03 at
every BEGIN of every implementation trace; tie: trace validation compares the complete inputs dict of every step with the model's."""
from .. import common, sched_check, monitors, gen

KINDS = {'inputs', 'mirror'}


def mirror_failures(log):
    """several entities per simulator, connected index by index: each is given what entity e is given, under its own ids -
    no value attributed to another source entity, none lost, none taken from another entity's output"""
    from .. import tracelib
    out = []
    for l in log:
        if l[0] == 'BEGIN':
            for (meid, mgot, mbase) in tracelib.mirror_diffs(l[4]):
                out.append(f'{l[1]}@{tuple(l[2])}: entity {meid} is given {mgot} while entity e (connected in the same way) is given {mbase}')
    return out


def monitor(ctx, log, case=None, **kw):
    hv = monitors.hyp_C03(ctx, case)
    mf = mirror_failures(log)
    if any(h.startswith('x:') for h in hv):
        return mf          # outside the property's quantifier (see DESIGN.md C03)
    sd = monitors.setdata_delivery(ctx, log) if kw.get('outcome', 'ok') == 'ok' else []
    return mf + monitors.P_C03(ctx, log, case=case, **kw) + sd


def hyp(case, ctx):
    return monitors.hyp_C03(ctx, case)


def known_match(failure, case, hv):
    if str(failure).startswith('ABS '): return None       # a step that did not wait for its provider is none of the known input classes
    if str(failure).startswith('ABS-LATER'): return 'F11' if 'weak' in hv else None
    if 'init_on_event_source' in hv: return 'F17'
    if 'shared_init_slot' in hv: return 'F10'
    if 'weak' in hv: return 'F11'
    if 'nonmonotone' in hv: return 'F14'
    return None


def nontrivial(case, run, val):
    # a step received a non-empty input that is neither initial data only
    return any(l[0] == 'BEGIN' and any('@' in str(v) for m in l[4].get('e', {}).values() for v in m.values()) for l in run.log)


def features(case, run, val):
    f = ['groups' if any(case['grp']) else 'flat'] + sorted({'edge:' + e['kind'] for e in case['edges']})
    f.append('outcome:' + val.impl_kind)
    if getattr(val, 'pull', False): f.append('premise pull_strict of C03_pulled_inputs_come_from_the_final_cache certified')
    if getattr(val, 'push', False): f.append('premise push_strict of C03_no_event_is_overdue certified')
    return f


def case_gen(rng, k):
    if k % 11 == 6: return gen.gen_weak_and_direct_case(rng)
    case = gen.gen_parallel_case(rng, clean=(k % 10 != 9)) if k % 5 == 4 else gen.gen_fanin_case(rng) if k % 5 == 2 else gen.gen_case(rng, groups=True, clean=0.75)
    if k % 4 == 3:
        case['mirror'] = rng.choice([1, 1, 2])       # several entities per simulator, connected index by index
    if k % 3 == 1:
        # persistent outputs that are sometimes None ("no reading"): None is a value like any other
        for i, b in enumerate(case['beh']):
            if case['types'][i] != 'event-based' and rng.random() < 0.7:
                b['none_outputs'] = [f'{tt},0' for tt in range(case['until'] + 1) if rng.random() < 0.4]
    return case


def extra_cases(seed):
    """families added after the main stream was fixed (they are run in addition, so the main stream keeps its scenarios):
    initial data on undelayed connections, one attribute fed by a persistent and by an event output, values written with set_data"""
    import random
    out = []
    for j in range(28):
        rng = random.Random(seed * 7919 + j)
        # (j >= 16: agents that write to their async predecessors with set_data, several agent entities per call)
        case = gen.gen_case(rng, groups=(j % 3 == 0), asyncs=True, clean=1.0, maxn=4) if j >= 16 else gen.gen_plain_init_case(rng) if j % 2 == 0 else gen.gen_mixed_attr_case(rng)
        if j >= 16:
            for i, b in enumerate(case['beh']):
                if b.get('set_data'):
                    # one call that carries the writes of several agent entities of the simulator, also to the same destination
                    b['set_data_batched'] = True
                    for key, items in b['set_data'].items():
                        for it in [x for x in items if x[3] == 0]:
                            if not any(y[0] == it[0] and y[1] == it[1] and y[3] == 1 for y in items):
                                items.append([it[0], it[1], f"set{i}.1@{key.split(',')[0]}", 1])
        out.append((case, dict(lazy=bool(j % 4 < 2), cache=bool(j % 3), strategy=gen.pick_strategy(rng, case), seed=seed * 100 + j)))
    return out


def run(out, info, tier, seed):
    out.trusted_base = common.COMMON_TRUSTED + [
        'modelled by hand: get_input_data, get_outputs, prune_dataflow_cache, TimedInputBuffer, get_output_for, connect_one data routing (Sched/Plane.v, Static/Build.v); one entity per simulator',
        'reference semantics (monitors.P_C03) is Python, validated against the model on every run']
    out.assumptions = ['slot semantics: one value per (destination attribute, source entity); a value overwritten in its slot before the consumer steps is superseded, not lost',
                       'outside the quantifier: several connections into one slot (unique_slots), persistent attributes not produced at every step (persistent_complete)']
    sched_check.sched_property(out, info, tier, seed, 'C03', KINDS, monitor, gen_opts=dict(groups=True, clean=0.75),
                               case_gen=case_gen, extra_cases=extra_cases(seed),
                               ncases=(220, 2500), variants=[(True, True), (False, True), (True, False), (False, False)],
                               nontrivial=nontrivial, features=features, hyp=hyp, known_match=known_match,
                               extra_obligations=[('Sched.DataP (buffer, cache, pruning lemmas)', 'Sched/DataP'),
                                                  ('Sched.PullRun (whole-run characterisation of pulled inputs)', 'Sched/PullRun'),
                                                  ('Sched.EventRun (events over whole runs: kept, delivered once, by the first step at or after the due time)', 'Sched/EventRun')])
    out.coverage['nontrivial_rule'] = 'some step received a value produced by another simulator'


def replay(path, out):
    return sched_check.replay_trace(path, 'C03', monitor, KINDS)
