"""C14 - fault containment and clean shutdown (partial by nature).  Proof: coq/Props/C14.v (exception flow under an oracle
assumption on stop()).  Check: fault injection on the real code - for every request index of every simulator (setup_done,
each step, each get_data), fault kind (exception in handler, process exit, connection close) and transport (in-process,
subprocess): run() must end promptly with an error (or the logged remote error), every other simulator is finalized exactly
once, no live child process, loop closed, no pending tasks, no step after the abort."""
import asyncio, collections, copy, gc, json, logging, os, signal, sys, tempfile, time, warnings
warnings.simplefilter('ignore')
from .. import common
import mosaik, mosaik_api_v3
from loguru import logger

FINALIZED = collections.Counter()
STEPS = []
AFTER = {}      # faulty simulator -> number of requests it received after it had failed


class LSim(mosaik_api_v3.Simulator):
    """in-process simulator with an injectable fault; step/get_data yield once so that several simulators are in flight"""
    def __init__(self):
        super().__init__({'api_version': '3.0', 'type': 'time-based', 'models': {'M': {'public': True, 'params': [], 'attrs': ['i', 'po']}}})
    def init(self, sid, time_resolution=1.0, fault=None, typ='time-based', hold=False, unser=False, **kw):
        self.unser = unser        # its output value cannot be JSON-encoded (a set)
        self.sid = sid; self.fault = fault; self.n = {'step': 0, 'get_data': 0}; self.typ = typ; self.hold = hold
        self.meta['type'] = typ
        return self.meta
    def create(self, num, model): return [{'eid': 'e', 'type': model}]
    def _exc(self):
        # fault kind 'raise' (RuntimeError) or 'raise:<ExceptionClass>' / 'raise:plain:<ExceptionClass>'
        name = self.fault[2].split(':')[-1] if ':' in self.fault[2] else 'RuntimeError'
        AFTER.setdefault(self.sid, 0)         # (a repeated request that fails again must not reset the count)
        self.failed = True
        return {'RuntimeError': RuntimeError, 'StopIteration': StopIteration, 'KeyError': KeyError, 'ValueError': ValueError}.get(name, RuntimeError)('injected fault')
    def _seen(self):
        if getattr(self, 'failed', False): AFTER[self.sid] += 1
    def _fault(self, kind):
        f = self.fault
        if f and f[0] == kind and self.n[kind] == f[1]:
            if f[2].startswith('badreply'):
                # the simulator does not fail: it answers with a next step that is not later than the current one; the run is
                # ended by the scheduler's SimulationError while this simulator is alive and well
                self.n[kind] += 1; AFTER.setdefault(self.sid, 0); self.failed = True
                return True
            if ':once:' in f[2]: self.n[kind] += 1        # a transient failure: the same request would succeed if it were repeated
            raise self._exc()
        self.n[kind] += 1
        return False
    def setup_done(self):
        if self.fault and self.fault[0] == 'setup_done': raise self._exc()
    def step(self, time_, inputs, max_advance):
        self._seen()
        STEPS.append((time.time(), self.sid, time_))
        # a held simulator is really suspended (on a timer) in the middle of its step when another one fails: its
        # outstanding request must be abandoned, not left running on the loop
        yield asyncio.sleep(0.3 if self.hold and time_ >= 1 else 0)
        f = self.fault
        if f and f[0] == 'step' and self.n['step'] == f[1] and '@' in f[2]:
            # the failure surfaces k event-loop iterations later (sweeps the moment of the failure relative to the
            # other simulators' wake-ups)
            for _ in range(int(f[2].split('@')[1])): yield asyncio.sleep(0)
        if self._fault('step'): return time_
        return time_ + 1 if self.typ == 'time-based' else None
    def get_data(self, outputs):
        self._seen()
        if self.hold == 'stuck':
            yield asyncio.get_event_loop().create_future()     # (never answers: whoever asked must be able to give up)
        yield asyncio.sleep(0.3 if self.hold else 0)        # (a held simulator is really suspended while it collects its outputs)
        self._fault('get_data')
        return {'e': {'po': {1, 2} if self.unser else self.n['step']}}
    def finalize(self):
        FINALIZED[self.sid] += 1
        if self.fault and self.fault[0] == 'finalize':
            raise ValueError('injected fault in finalize')       # (a stop() that raises: the others are stopped all the same)


class ASim(LSim):
    """a simulator that, in its second step, asks mosaik for data of two other simulators at once (an asynchronous get_data
    request over async_requests connections)"""
    def step(self, time_, inputs, max_advance):
        self._seen()
        STEPS.append((time.time(), self.sid, time_))
        if time_ == 1:
            yield self.mosaik.get_data({'S0.e': ['po'], 'S2.e': ['po']})
        else:
            yield asyncio.sleep(0)
        return time_ + 1


class PSim(LSim):
    """the same simulator with plain (non-generator) handlers, as most in-process simulators are written"""
    def step(self, time_, inputs, max_advance):
        self._seen()
        STEPS.append((time.time(), self.sid, time_))
        if self._fault('step'): return time_
        return time_ + 1 if self.typ == 'time-based' else None
    def get_data(self, outputs):
        self._seen()
        self._fault('get_data')
        return {'e': {'po': self.n['step']}}


class OSim(PSim):
    """a simulator written for both mosaik 2 and 3: announces API version 2.2 (so it is wrapped in the version adapters),
    plain handlers, step accepts max_advance as an optional third argument"""
    def __init__(self):
        super().__init__()
        self.meta = dict(self.meta, api_version='2.2')
    def init(self, sid, fault=None, typ='time-based', **kw):
        return super().init(sid, fault=fault, typ=typ)
    def step(self, time_, inputs, max_advance=None):
        return super().step(time_, inputs, max_advance)


def open_sockets():
    """number of socket file descriptors this process holds"""
    n = 0
    for fd in os.listdir('/proc/self/fd'):
        try:
            if os.readlink(f'/proc/self/fd/{fd}').startswith('socket:'): n += 1
        except OSError:
            pass
    return n


def children():
    """live (non-zombie) and zombie child processes of this process"""
    me = os.getpid(); live, zomb = [], []
    for p in os.listdir('/proc'):
        if not p.isdigit(): continue
        try:
            st = open(f'/proc/{p}/stat').read()
            rp = st.rfind(')'); fields = st[rp + 2:].split()
            if int(fields[1]) == me:
                (zomb if fields[0] == 'Z' else live).append(int(p))
        except Exception:
            pass
    return live, zomb


class TaskWarnings(logging.Handler):
    def __init__(self): super().__init__(); self.n = 0
    def emit(self, record):
        if 'Task was destroyed but it is pending' in record.getMessage(): self.n += 1


def one(topology, faulty, fkind, req, index, remote):
    """topology: 'chain' A->B->C or 'pair' A->B ; faulty: index of the failing simulator"""
    FINALIZED.clear(); STEPS.clear(); AFTER.clear()
    logf = tempfile.mktemp(prefix='c14-', suffix='.log', dir=common.BUILD)
    n = 2 if topology in ('pair', 'trig') else 3      # 'trigfree': A -> B (event-based, waits for triggers) and an unconnected third simulator
    cfg = {'L': {'python': 'harness.props.c14:LSim'}, 'A': {'python': 'harness.props.c14:ASim'}, 'P': {'python': 'harness.props.c14:PSim'}, 'O': {'python': 'harness.props.c14:OSim'},
           'R': {'cmd': f'{common.PY} -m harness.remote_sim %(addr)s', 'env': {'PYTHONPATH': f'{common.REPO}:{common.VERIF}', 'LOGURU_LEVEL': 'CRITICAL'}},
           'RA': {'cmd': f'{common.PY} -m harness.remote_sim %(addr)s', 'env': {'PYTHONPATH': f'{common.REPO}:{common.VERIF}', 'LOGURU_LEVEL': 'CRITICAL', 'VERIF_RSIM_ASK': '1'}}}
    tw = TaskWarnings(); alog = logging.getLogger('asyncio'); old_level = alog.level
    alog.addHandler(tw); alog.setLevel(logging.ERROR)
    errors = []
    sink_id = logger.add(lambda m: errors.append(str(m)), level='ERROR')
    before_live, before_z = children()
    gc.collect(); sockets_before = open_sockets()
    # fault kinds containing ':ownloop' : the caller hands its own event loop to the World and, as callers do, calls
    # shutdown() again after run() (the clean-up in a finally block): every simulator is still finalized exactly once
    own_loop = ':ownloop' in fkind
    if own_loop:
        caller_loop = asyncio.new_event_loop(); asyncio.set_event_loop(caller_loop)
        w = mosaik.World(cfg, skip_greetings=True, asyncio_loop=caller_loop)
    else:
        w = mosaik.World(cfg, skip_greetings=True, debug=':debug' in fkind)      # (':debug': the execution-graph wrappers around step/get_outputs are active)
    res = dict(outcome=None)
    t0 = time.time(); t_fault = None
    def alarm(sig, frm): raise TimeoutError('run() did not terminate')
    signal.signal(signal.SIGALRM, alarm); signal.alarm(6)
    try:
        ents = []
        for i in range(n):
            fault = [req, index, fkind] if i == faulty else None
            if i == faulty and remote and fkind.startswith('askbad'):
                ents.append(w.start('RA', sim_id=f'S{i}', beh={'type': 'time-based', 'step_size': 1, 'default_output': [None, ['po']]}, log=logf, seed=i, fault=fault).M())
            elif i == faulty and remote:
                ents.append(w.start('R', sim_id=f'S{i}', beh={'type': 'time-based', 'step_size': 1, 'default_output': [None, ['po']]}, log=logf, seed=i, fault=fault).M())
            elif remote == 'all':
                ents.append(w.start('R', sim_id=f'S{i}', beh={'type': 'time-based', 'step_size': 1, 'default_output': [None, ['po']]}, log=logf, seed=i, fault=None).M())
            else:
                ents.append(w.start('A' if (topology == 'ask2' and i == 1) else 'O' if (i == faulty and ':old:' in fkind) else 'P' if (i == faulty and ':plain:' in fkind) else 'L', sim_id=f'S{i}', fault=fault, hold=('stuck' if (':stuck' in fkind and i == 2) else (':held' in fkind and i != faulty)), unser=(fkind.startswith('askbad') and i == 0), typ=('event-based' if topology in ('trig', 'trigfree') and i == 1 else 'time-based')).M())
        if topology == 'ask':
            w.connect(ents[0], ents[1], async_requests=True)      # S1 may ask S0 for data; nothing else is connected
        if topology == 'ask2':
            w.connect(ents[0], ents[1], async_requests=True); w.connect(ents[2], ents[1], async_requests=True)   # S1 asks S0 and S2
        for i in range(0 if topology in ('ask', 'ask2') else (n - 1) if topology not in ('free', 'trigfree') else 1):
            w.connect(ents[i], ents[i + 1], ('po', 'i'))      # 'free': A->B and an unconnected third simulator
        try:
            w.run(until=4, print_progress=False)
            res['outcome'] = 'returned'
        except TimeoutError:
            res['outcome'] = 'HANG'
        except BaseException as e:
            res['outcome'] = 'raised:' + type(e).__name__
    finally:
        signal.alarm(0)
        res['elapsed'] = round(time.time() - t0, 2)
        if own_loop:
            try: w.shutdown()                  # the caller's own clean-up: a second shutdown
            except BaseException as e: res['second_shutdown'] = type(e).__name__
        res['loop_closed'] = w.loop.is_closed()
        try:
            # tasks that are still pending on the World's loop after run() and shutdown (the loop keeps a weak set of its tasks)
            res['tasks_left'] = sorted(str(t.get_coro())[:80] for t in asyncio.all_tasks(w.loop) if not t.done())
        except BaseException:
            res['tasks_left'] = []
        if not w.loop.is_closed():
            try: w.shutdown()
            except BaseException: pass
            try:
                if own_loop and not w.loop.is_closed(): w.loop.close()
            except BaseException: pass
    del w
    gc.collect()
    # a simulator process whose connection was closed needs a moment to exit: poll before calling it "left running"
    for _ in range(60):
        live, zomb = children()
        if not [p for p in live if p not in before_live]: break
        time.sleep(0.05)
    res['live_children'] = [p for p in live if p not in before_live]
    res['zombie_children'] = len([p for p in zomb if p not in before_z])
    for p in res['live_children']:
        try: os.kill(p, signal.SIGKILL)
        except Exception: pass
    # reap whatever we can so that later cases start clean
    try:
        while True:
            pid, _ = os.waitpid(-1, os.WNOHANG)
            if pid == 0: break
    except ChildProcessError:
        pass
    gc.collect()
    res['sockets_left_open'] = max(0, open_sockets() - sockets_before)
    res['pending_task_warnings'] = tw.n
    res['finalized'] = dict(FINALIZED)
    res['requests_after_failure'] = dict(AFTER)
    res['remote_error_logged'] = any('aborted the simulation' in e for e in errors)
    alog.removeHandler(tw); alog.setLevel(old_level); logger.remove(sink_id)
    if os.path.exists(logf): os.remove(logf)
    return res


def monitor(n, faulty, remote, fkind, res):
    bad = []
    if res['outcome'] == 'HANG': bad.append('run() did not terminate within 6 s')
    elif fkind.startswith('none'):
        if res['outcome'] != 'returned': bad.append(f"a run without any failure ended with {res['outcome']}")
    elif res['outcome'] == 'returned' and not res['remote_error_logged']: bad.append('run() returned normally without reporting the failure')
    if res['elapsed'] > 4.5: bad.append(f"run() took {res['elapsed']} s")
    for sid, k in res.get('requests_after_failure', {}).items():
        if k: bad.append(f'the failed simulator {sid} received {k} more request(s) after its failure')
    if not res['loop_closed'] and ':ownloop' not in fkind: bad.append('event loop not closed')
    if res.get('second_shutdown'): bad.append(f"a second shutdown() raised {res['second_shutdown']}")
    for i in range(n):
        if i == faulty: continue
        if remote == 'all': continue         # finalize of remote simulators is not observable here
        c = res['finalized'].get(f'S{i}', 0)
        if c != 1: bad.append(f'healthy simulator S{i} was finalized {c} times')
    if fkind.startswith('badreply') and not remote:
        # the simulator whose reply is refused is alive: it is stopped like every other one
        c = res['finalized'].get(f'S{faulty}', 0)
        if c != 1: bad.append(f'the simulator S{faulty}, whose reply ended the run, was finalized {c} times')
    if res['live_children']: bad.append(f"simulator process(es) left running: {res['live_children']}")
    if res.get('sockets_left_open'): bad.append(f"{res['sockets_left_open']} socket(s) of this run were still open after run() and shutdown")
    if res.get('tasks_left') and ':ownloop' not in fkind: bad.append(f"{len(res['tasks_left'])} task(s) still pending on the event loop after run(): {res['tasks_left'][:2]}")
    if res['pending_task_warnings']: bad.append(f"{res['pending_task_warnings']} event-loop task(s) were still pending when the loop was closed")
    return bad


def cases(tier):
    out = []
    for topology, n in (('pair', 2), ('chain', 3), ('free', 3), ('trig', 2)):
        for faulty in range(n):
            for req, idxs in (('setup_done', [0]), ('step', [0, 1, 3]), ('get_data', [0, 2])):
                for index in idxs:
                    if req == 'get_data' and (faulty == n - 1 or (topology == 'free' and faulty >= 1)): continue      # the last simulator has no connected outputs: get_data is never requested
                    out.append((topology, faulty, 'raise', req, index, False))
                    # other exception classes, generator-style and plain handlers (in-process)
                    if index <= 1 and (tier == 'thorough' or topology in ('pair', 'trig')):
                        for fk in ('raise:plain:RuntimeError', 'raise:plain:StopIteration', 'raise:StopIteration', 'raise:plain:KeyError',
                                   'raise:old:ValueError', 'raise:old:RuntimeError', 'raise:old:once:ValueError', 'raise:plain:once:ValueError'):
                            # (':old:' = the failing simulator announces API 2.2 and is reached through the version adapters)
                            if tier == 'thorough' or fk != 'raise:plain:KeyError':
                                out.append((topology, faulty, fk, req, index, False))
                    if tier == 'thorough' or (index <= 1 and topology == 'pair') or (topology == 'chain' and faulty == 1 and index == 1):
                        out.append((topology, faulty, 'raise', req, index, True))
                        out.append((topology, faulty, 'exit', req, index, True))
    # a World on the caller's own event loop, shut down a second time by the caller
    for fk, req, index in (('raise:ownloop', 'step', 1), ('raise:ownloop', 'get_data', 0), ('none:ownloop', 'step', 99), ('raise:plain:ownloop:RuntimeError', 'step', 0)):
        out.append(('pair', 0, fk, req, index, False))
        out.append(('chain', 1, fk, req, index, False))
    # a remote simulator asks mosaik, in the middle of its step, for data that cannot be sent to it (not JSON-encodable): its
    # request fails, the run ends with that failure reported and everything is cleaned up
    for index in (0, 2):
        out.append(('ask', 1, 'askbad:S0', 'step', index, True))
    # one request for data of two simulators: the first fails in get_data while the second is still collecting its outputs
    out.append(('ask2', 0, 'raise:held', 'get_data', 0, False))
    out.append(('ask2', 0, 'raise:stuck', 'get_data', 0, False))
    out.append(('ask2', 0, 'raise', 'get_data', 0, False))
    # healthy simulators that are suspended inside their step (on a timer) at the moment of the failure
    for topology, faulty in (('free', 2), ('free', 0), ('pair', 1), ('chain', 2)):
        for fk, req, index in (('raise:held', 'step', 1), ('raise:held', 'step', 2), ('raise:plain:held:RuntimeError', 'step', 1), ('raise:held@3', 'step', 1)):
            out.append((topology, faulty, fk, req, index, False))
    # a simulator whose finalize() raises, in an otherwise healthy run: run() reports it, every other simulator is finalized, the
    # loop is closed (finding F25, repaired)
    for topology, faulty in (('pair', 0), ('chain', 0), ('chain', 1), ('free', 2)):
        out.append((topology, faulty, 'raise', 'finalize', 0, False))
        out.append((topology, faulty, 'raise:plain:ValueError', 'finalize', 0, False))
    # the connection closes while the simulator's process keeps running (known finding F24)
    out.append(('pair', 0, 'close', 'step', 1, True))
    out.append(('chain', 1, 'close', 'get_data', 0, True))
    # a protocol violation instead of a failure: the simulator answers step() with a next step that is not later than the current
    # one - the scheduler ends the run with a SimulationError, and the offender (alive and well) is stopped like the others
    for topology, faulty, index, rem in (('pair', 0, 1, False), ('pair', 1, 0, False), ('chain', 1, 2, False), ('free', 2, 1, False), ('pair', 0, 1, True), ('chain', 2, 0, True)):
        out.append((topology, faulty, 'badreply', 'step', index, rem))
        if not rem: out.append((topology, faulty, 'badreply:plain:x', 'step', index, rem))
    # the same failures in a World(debug=True): the debug wrappers around the step must let the failure (and the cancellation
    # of the suspended survivors) through
    for topology, faulty, fk, req, index in (('pair', 0, 'raise:debug', 'step', 1), ('chain', 1, 'raise:debug', 'step', 0), ('pair', 0, 'raise:debug', 'get_data', 0),
                                             ('pair', 1, 'raise:plain:debug:ValueError', 'step', 1), ('free', 2, 'raise:held:debug', 'step', 1), ('pair', 1, 'raise:held:debug', 'step', 2),
                                             ('chain', 0, 'raise:held:debug', 'get_data', 0)):
        out.append((topology, faulty, fk, req, index, False))
    # the moment of the failure swept over event-loop iterations: an unconnected simulator fails k iterations into its
    # step while a triggered simulator is being woken / waits for its next step to settle
    for index in ((1, 2) if tier == 'quick' else (0, 1, 2, 3)):
        for k in range(0, 14 if tier == 'quick' else 30):
            out.append(('trigfree', 2, f'raise@{k}', 'step', index, False))
            if tier == 'thorough': out.append(('trigfree', 0, f'raise@{k}', 'step', index, False))
    return out


def run(out, info, tier, seed):
    out.checker_cmd = 'make -C coq && coqc -Q coq MV coq/Props/C14.v'
    out.trusted_base = common.COMMON_TRUSTED + ['modelled: only the exception flow World.run/scheduler.run/shutdown over oracle outcomes (Ext/Faults.v); World.shutdown, World.run and scheduler.run are compared with the skeleton the model assumes (harness/py2coq_sched.py); what run() raises is proved under the assumption that every stop() returns, the clean-up itself without it',
                                                'NOT modelled, observed by fault injection only: elapsed time, process reaping, sockets, asyncio task garbage']
    out.assumptions = ['a subprocess simulator that closes its connection and keeps running is exercised with a process that closes every descriptor above 2 and sleeps (known finding F24)']
    obl, log, broken = common.check_props_file('C14', info)
    for o in obl: out.add_obligation(o['name'], o['ok'], o['assumptions'])
    bad = common.hygiene()
    out.add_obligation('hygiene: no Admitted/admit/Axiom/Parameter/Unset Guard in coq/', not bad, '; '.join(bad[:5]))
    if broken: out.notes.append('broken files: ' + ', '.join(broken) + '\n' + log[-1500:])
    kf = {f['id']: f for f in common.known_findings('C14')}
    violations = []; n_eval = 0; hist = collections.Counter(); samples = []; zombies = 0; nontriv = 0; f24 = []
    for (topology, faulty, fkind, req, index, remote) in cases(tier):
        n = 2 if topology in ('pair', 'trig') else 3
        res = one(topology, faulty, fkind, req, index, remote)
        n_eval += 1
        hist[res['outcome']] += 1
        zombies += res['zombie_children']
        d = dict(kind='fault', topology=topology, faulty=faulty, fault=fkind, request=req, index=index, remote=remote)
        fails = monitor(n, faulty, remote, fkind, res)
        if fails and fkind == 'close' and 'F24' in kf and all('left running' in f for f in fails) and len(res['live_children']) == 1:
            # known finding F24: the simulator lost its connection but its process goes on running; mosaik keeps no handle on the
            # processes it starts (the documented stop_timeout is unused), so nothing terminates it.  Matched narrowly: this
            # fault kind, and the ONLY complaint is the one process left running
            f24.append(fails[0]); fails = []
        if fails: violations.append(dict(d, observed=fails, result=res))
        if req != 'setup_done': nontriv += 1
        if len(samples) < 2: samples.append(dict(d, result=res))
        if hist['HANG'] >= 4:
            out.notes.append('stopped after 4 runs that did not terminate (each costs the 6 s watchdog)'); break
    for v in violations[:1]: out.violations.append(v)
    if f24: out.known_hits.append((kf['F24'], f'{len(f24)} run(s) in which a subprocess simulator closed its connection and kept running: {f24[0]}'))
    if zombies and 'F16z' in kf:
        out.known_hits.append((kf['F16z'], f'{zombies} simulator child process(es) were never waited for (zombies until the interpreter exits)'))
    elif zombies:
        out.violations.append(dict(kind='fault', observed=[f'{zombies} zombie child processes']))
    out.coverage = {'evaluations': n_eval, 'distinct_nontrivial': nontriv,
                    'rule': 'topologies pair (A->B) and chain (A->B->C) x failing simulator x request (setup_done, step #0/#1/#3, get_data #0/#2) x fault kind '
                            '(exception in handler: RuntimeError / StopIteration / KeyError / ValueError raised by generator-style and by plain handlers, also by a simulator announcing API 2.2 behind the version adapters; for subprocess simulators also os._exit) x transport of the failing simulator (in-process / subprocess; thorough: all combinations); '
                            'the same failures in a World(debug=True); plus the moment of the failure swept over 14 (thorough: 30) event-loop iterations for an unconnected failing simulator next to a triggered simulator that waits for its next step to settle; '
                            'non-trivial = fault during the stepping phase',
                    'samples': samples, 'outcome_histogram': dict(hist), 'monitor_failures': len(violations), 'zombie_children': zombies}


def replay(path, out):
    r = json.load(open(path))
    if r.get('kind') != 'fault' or 'topology' not in r:
        print(json.dumps(r, indent=1)[:2000]); print('re-run ./check C14'); return 1
    res = one(r['topology'], r['faulty'], r['fault'], r['request'], r['index'], r['remote'])
    fails = monitor(2 if r['topology'] in ('pair', 'trig') else 3, r['faulty'], r['remote'], r['fault'], res)
    print(res); [print('monitor:', f) for f in fails]
    if fails: print(f'VIOLATION property=C14 replay={path}')
    return 1 if fails else 0
