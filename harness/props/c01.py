"""C01 - causal input readiness.  Proof: coq/Props/C01.v (invariant Sched/Inv.v).  Tie: trace validation - every BEGIN
observed on the real scheduler must pass the model's input guard with the model's own delay tables."""
from .. import common, sched_check, monitors, gen

KINDS = {'uncertified', 'guard_input', 'tables', 'tables_anc', 'notwaiting', 'timemismatch', 'model_err:backwards', 'impl_err:internal:backwards'}


def nontrivial(case, run, val):
    # some BEGIN had to wait: a provider was in flight or had a queued step when the consumer's step was already scheduled
    busy = set(); waited = False
    for l in run.log:
        if l[0] == 'BEGIN': busy.add(l[1])
        elif l[0] == 'DATA' or (l[0] == 'STEP'): busy.discard(l[1])
        if l[0] == 'QUIESCE' and len(busy) >= 2: waited = True
    return waited and bool(case['edges'])


def features(case, run, val):
    f = ['groups' if any(case['grp']) else 'flat']
    f += sorted({'edge:' + e['kind'] for e in case['edges']})
    if any(e.get('async') for e in case['edges']): f.append('async')
    return f


def case_gen(rng, k):
    if k % 12 == 7: return gen.gen_detour_case(rng)
    if k % 14 == 9: return gen.gen_substep_forecast_case(rng)
    if k % 5 == 4: return gen.gen_parallel_case(rng, clean=False)
    if k % 5 == 2: return gen.gen_nested_case(rng)
    if k % 10 == 3:
        # pairs with async_requests (a provider whose consumer may ask it for data during its step), also on delayed connections
        case = gen.gen_case(rng, groups=(k % 20 == 3), asyncs=True, clean=1.0, maxn=4)
        return gen.delay_async_edges(rng, case) if rng.random() < 0.7 else case
    return gen.gen_case(rng, groups=True)


def extra_cases(seed):
    """families added after the main stream was fixed (run in addition): two trigger paths of different delay between one pair"""
    import random
    out = []
    for j in range(12):
        rng = random.Random(seed * 6007 + j)
        case = gen.gen_two_path_case(rng)
        out.append((case, dict(lazy=bool(j % 2), cache=bool(j % 3), strategy=gen.pick_strategy(rng, case), seed=seed * 100 + j)))
    return out


def run(out, info, tier, seed):
    out.trusted_base = common.COMMON_TRUSTED + [
        'modelled by hand: sim_process/next_step_settled/wait_for_dependencies/step/get_outputs/notify_dependencies/advance_progress/'
        'get_max_advance (Sched/Timing.v), World.connect tables and cache_triggering_ancestors (Static/Build.v, Sched/Link.v)',
        'assumed of asyncio: a task runs atomically between suspensions; futures wake their waiters (liveness of wake-ups is checked by the quiescence test)',
        'theorem premise static_ok (shape facts + ancestors closure dominates every trigger path) is discharged per scenario by the table comparison, not yet by a closure theorem']
    out.assumptions = ['simulators are an oracle: any reply sequence (event list); delays compared have equal shape (convex group scenarios)']
    sched_check.sched_property(out, info, tier, seed, 'C01', KINDS, monitors.P_C01, gen_opts=dict(groups=True),
                               case_gen=case_gen, extra_cases=extra_cases(seed),
                               ncases=(220, 2000), nontrivial=nontrivial, features=features,
                               extra_obligations=[('Sched.Inv (invariant preserved by every event)', 'Sched/Inv'),
                                                  ('Sched.Main (lifting to runs from the initial state)', 'Sched/Main')])
    out.coverage['realtime_configs'] = realtime_causal(out)
    out.coverage['nontrivial_rule'] = 'at some quiescent point at least two simulators were in flight (a consumer could have been stepped too early)'


def realtime_causal(out):
    """the guard also holds in real-time mode: a producer whose step is really in flight when the wall clock passes into the
    next tick(s) - late, tolerated with rt_strict off - still holds its consumer back, also while other simulators finish
    steps in the meantime.  Run on the virtual clock of the C17 harness: A -> B (plain), an unconnected bystander D."""
    from . import c17
    n = 0
    for rt in (0.5, 1.0):
        for late_step, dur in ((1, 1.5), (2, 1.25), (1, 2.5), (0, 1.5)):
            for conn in ([(0, 1)], [(0, 1), (1, 2)]):
                cfg = dict(rt=rt, res=1.0, until=5, strict=False, sims=[{'durations': {str(late_step): rt * dur}}, {}, {}], connect=conn)
                r = c17.trial(cfg); n += 1
                ended = set(); bad = []
                for l in r['log']:
                    if l[0] == 'END': ended.add((l[1], l[2]))
                    if l[0] == 'BEGIN' and l[1] == 'S1' and ('S0', l[2]) not in ended:
                        bad.append(f'S1 began its step at {l[2]} (wall {l[3]}) before its provider S0 had finished its step at {l[2]}')
                    if l[0] == 'BEGIN' and l[1] == 'S2' and len(conn) == 2 and ('S1', l[2]) not in ended:
                        bad.append(f'S2 began its step at {l[2]} (wall {l[3]}) before its provider S1 had finished its step at {l[2]}')
                if r['outcome'] != 'returned': bad.append(f"run failed: {r['outcome']}")
                if bad:
                    out.violations.append(dict(kind='realtime_causal', config=cfg, observed=bad[:3]))
                    return n
    return n


def replay(path, out):
    import json
    r = json.load(open(path))
    if r.get('kind') == 'realtime_causal':
        o = common.Outcome('C01', 'quick', 0); realtime_causal(o)
        for v in o.violations: print(v['observed'])
        if o.violations: print(f'VIOLATION property=C01 replay={path}')
        return 1 if o.violations else 0
    return sched_check.replay_trace(path, 'C01', monitors.P_C01, KINDS)
