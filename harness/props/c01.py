"""C01 - causal input readiness.  Proof: coq/Props/C01.v (invariant Sched/Inv.v).  Tie: trace validation - every BEGIN
observed on the real scheduler must pass the model's input guard with the model's own delay tables."""
from .. import common, sched_check, monitors, gen

KINDS = {'uncertified', 'guard_input', 'tables', 'tables_anc', 'notwaiting', 'timemismatch', 'model_err:backwards', 'impl_err:internal:backwards'}


def nontrivial(case, run, val):
    # some BEGIN had to wait: a provider was in flight or had a queued step when the consumer's step was already scheduled
    busy = set(); waited = False
    for l in run.log:
        if l[0] == 'BEGIN': busy.add(l[1])
        elif l[0] == 'DATA' or (l[0] == 'STEP'): busy.discard(l[1])
        if l[0] == 'QUIESCE' and len(busy) >= 2: waited = True
    return waited and bool(case['edges'])


def features(case, run, val):
    f = ['groups' if any(case['grp']) else 'flat']
    f += sorted({'edge:' + e['kind'] for e in case['edges']})
    if any(e.get('async') for e in case['edges']): f.append('async')
    return f


def case_gen(rng, k):
    if k % 5 == 4: return gen.gen_parallel_case(rng, clean=False)
    if k % 5 == 2: return gen.gen_nested_case(rng)
    if k % 10 == 3:
        # pairs with async_requests (a provider whose consumer may ask it for data during its step), also on delayed connections
        case = gen.gen_case(rng, groups=(k % 20 == 3), asyncs=True, clean=1.0, maxn=4)
        return gen.delay_async_edges(rng, case) if rng.random() < 0.7 else case
    return gen.gen_case(rng, groups=True)


def run(out, info, tier, seed):
    out.trusted_base = common.COMMON_TRUSTED + [
        'modelled by hand: sim_process/next_step_settled/wait_for_dependencies/step/get_outputs/notify_dependencies/advance_progress/'
        'get_max_advance (Sched/Timing.v), World.connect tables and cache_triggering_ancestors (Static/Build.v, Sched/Link.v)',
        'assumed of asyncio: a task runs atomically between suspensions; futures wake their waiters (liveness of wake-ups is checked by the quiescence test)',
        'theorem premise static_ok (shape facts + ancestors closure dominates every trigger path) is discharged per scenario by the table comparison, not yet by a closure theorem']
    out.assumptions = ['simulators are an oracle: any reply sequence (event list); delays compared have equal shape (convex group scenarios)']
    sched_check.sched_property(out, info, tier, seed, 'C01', KINDS, monitors.P_C01, gen_opts=dict(groups=True),
                               case_gen=case_gen,
                               ncases=(220, 2000), nontrivial=nontrivial, features=features,
                               extra_obligations=[('Sched.Inv (invariant preserved by every event)', 'Sched/Inv'),
                                                  ('Sched.Main (lifting to runs from the initial state)', 'Sched/Main')])
    out.coverage['nontrivial_rule'] = 'at some quiescent point at least two simulators were in flight (a consumer could have been stepped too early)'


def replay(path, out):
    return sched_check.replay_trace(path, 'C01', monitors.P_C01, KINDS)
