"""C05 - completion. Proof (partial, safety): coq/Props/C05.v. Tie: trace validation incl. the quiescence test (deadlock detector on the real scheduler, "nothing enabled" on the model)."""
from .. import common, sched_check, monitors, gen, tracelib

KINDS = ['uncertified', 'uncertified_flat', 'state', 'impl_err:deadlock', 'impl_err:internal:assert', 'impl_err:internal:backwards', 'impl_err:internal:past', 'model_err:backwards', 'model_err:past', 'notdone', 'quiesce_enabled', 'tables', 'tables_anc']


def P_C05(ctx, log, outcome_kind='ok', val=None, **kw):
    if outcome_kind in ('ok', 'scenario'):
        return []
    if outcome_kind == 'loop':
        # the loop guard may end a run whose same-time loop does not settle (a demanded step carries a sub-step index that
        # reached max_loop_iterations - the demands are recomputed from the simulators' replies); a run in which no demanded
        # step gets there was ended although it would have run to completion
        maxloop = kw.get('maxloop', 100)
        dem = monitors.demands_of(ctx, log)
        if any(x >= maxloop for k in dem for x in k[1][1:]) or not tracelib.convex(kw['case']):
            return []
        return [f'run() did not complete: the loop guard stopped it ({val.impl_outcome[:100] if val else ""}) although no demanded step has a sub-step index that reaches max_loop_iterations={maxloop}']
    extra = ''
    if outcome_kind == 'deadlock':
        # is the model, replayed on the same events, blocked in the same state (a deadlock of the scheduling rules), or
        # does it have an enabled simulator (a lost wake-up)?
        blocked = val is not None and not any(d['kind'] == 'quiesce_enabled' for d in val.disc)
        extra = f' [lazy_stepping={kw.get("lazy")} model_blocked={blocked}]'
    if outcome_kind.startswith('internal') and val is not None:
        # does the model, run on the same static tables, fail in the same way?  (then the scheduling rules are followed and
        # the tables are to blame: for non-convex scenarios the ancestors table depends on set order, finding F9)
        agrees = not any(d['kind'].startswith(('impl_err', 'model_err')) for d in val.disc)
        extra = f' [model_agrees={agrees}]'
    return [f'run() did not complete: {outcome_kind}{extra} ({val.impl_outcome[:160] if val else ""})']

def nontrivial(case, run, val):
    busy = set(); two = False
    for l in run.log:
        if l[0] == 'BEGIN': busy.add(l[1])
        elif l[0] in ('DATA', 'STEP'): busy.discard(l[1])
        if l[0] == 'QUIESCE' and len(busy) >= 2: two = True
    return two and bool(case['edges'])


def features(case, run, val):
    f = ['groups' if any(case['grp']) else 'flat']
    f += sorted({'edge:' + e['kind'] for e in case['edges']})
    if any(e.get('async') for e in case['edges']): f.append('async')
    f.append('outcome:' + val.impl_kind)
    if getattr(val, 'flat_certified', None): f.append('flat_certified (premise of C05_progress_flat holds)')
    elif getattr(val, 'uniform_certified', None): f.append('uniform_certified (premise of C05_progress_one_group holds)')
    return f


def known_match(failure, case, hyp_violated):
    if 'incomparable' in failure: return 'F9'
    if 'internal:backwards [model_agrees=True]' in failure and not tracelib.convex(case): return 'F9'
    if 'hang' in failure and not tracelib.convex(case): return 'F9h'
    if 'deadlock [lazy_stepping=True model_blocked=True]' in failure and not tracelib.convex(case): return 'F21'
    return None


def case_gen(rng, k):
    if k % 16 == 9: return gen.gen_pingpong_case(rng)
    if k % 8 == 2: return gen.gen_nested_case(rng)
    if k % 4 == 3: return gen.gen_reentry_case(rng)
    if k % 8 == 6: return gen.gen_loop_case(rng)
    case = gen.gen_case(rng, groups=True)
    if k % 8 in (0, 5):
        # events announced for times at or after the end: initial events (also delayed starts) at until, until+1, ...
        for i in rng.sample(range(case['n']), rng.randint(1, min(2, case['n']))):
            case['init'] = [x for x in case['init'] if x[0] != i] + [[i, case['until'] + rng.choice([0, 0, 1, 3])]]
    return case


def run(out, info, tier, seed):
    out.trusted_base = common.COMMON_TRUSTED + [
        'modelled by hand: sim_process/next_step_settled/wait_for_dependencies/step/get_outputs/notify_dependencies/advance_progress/'
        'get_max_advance (Sched/Timing.v), World.connect tables and cache_triggering_ancestors (Static/Build.v, Sched/Link.v)',
        'assumed of asyncio: a task runs atomically between suspensions; futures wake their waiters (wake-up liveness is checked by the quiescence test)',
        'theorem premise static_ok (shape facts; the ancestors table dominates every trigger path) is checked per scenario by comparing the model-built tables with the implementation, not yet discharged by a closure theorem']
    out.assumptions = ['simulators are an oracle: any reply sequence (event list); delays that are compared have equal shape (convex group scenarios)']
    sched_check.sched_property(out, info, tier, seed, 'C05', KINDS, P_C05, gen_opts={'groups': True},
                               case_gen=case_gen,
                               ncases=(220, 2000), variants=[(True, True), (False, True), (True, False)], nontrivial=nontrivial, features=features,
                               known_match=known_match, hyp=None,
                               extra_obligations=[('Sched.Inv (invariant preserved by every event)', 'Sched/Inv'),
                                                  ('Sched.Guards / Sched.Final', 'Sched/Final')])
    out.coverage['nontrivial_rule'] = 'at some quiescent point at least two simulators were in flight'


def replay(path, out):
    return sched_check.replay_trace(path, 'C05', P_C05, KINDS)
