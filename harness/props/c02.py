"""C02 - exact step set. Proof (partial): coq/Props/C02.v. Full statement: monitors.P_C02 on every implementation trace. Tie: trace validation (popped times, quiescence, completion)."""
from .. import common, sched_check, monitors, gen

KINDS = ['uncertified', 'state', 'impl_err:internal:past', 'model_err:past', 'notdone', 'notwaiting', 'quiesce_enabled', 'tables_anc', 'timemismatch']


def nontrivial(case, run, val):
    # a trigger (or a future output time) scheduled a step of another simulator
    return any(l[0] == 'DATA' and l[3] for l in run.log) and any(e for e in case['edges'])


def features(case, run, val):
    f = ['groups' if any(case['grp']) else 'flat']
    f += sorted({'edge:' + e['kind'] for e in case['edges']})
    if any(e.get('async') for e in case['edges']): f.append('async')
    f.append('outcome:' + val.impl_kind)
    return f



def case_gen(rng, k):
    if k % 14 == 6: return gen.gen_late_event_case(rng)
    case = (gen.gen_nested_case(rng) if k % 8 == 7 else gen.gen_loop_case(rng) if k % 4 == 2 else gen.gen_queue_case(rng) if k % 4 == 1
            else gen.gen_parallel_case(rng, clean=False) if k % 8 == 3 else gen.gen_case(rng, groups=True))
    if k % 8 in (4, 5):
        # self-steps announced far ahead and then, at a triggered step in between, an earlier one (non-monotone announcements)
        for b in case['beh']:
            if b.get('type') in ('hybrid', 'event-based') and 'self_steps' in b:
                b['self_steps'] = {str(tt): tt + rng.choice([1, 2, 3, 4, 5]) for tt in range(case['until']) if rng.random() < 0.8}
    if k % 4 in (0, 1):
        # outputs whose value is None (the key is present): such an output demands a step of a triggered destination like any other
        for b in case['beh']:
            if rng.random() < 0.6:
                b['none_attrs'] = ['po', 'eo', 'e2']
                b['none_outputs'] = [f'{tt},{kk}' for tt in range(case['until'] + 1) for kk in range(3) if rng.random() < 0.5]
    return case


def extra_cases(seed):
    """run in addition to the main stream: generator-style simulators whose step() makes no request to mosaik in a call - the
    generator finishes without having yielded anything, and what it returns is still the reply"""
    import random
    out = []
    for j in range(16):
        rng = random.Random(seed * 5003 + j)
        case = gen.gen_queue_case(rng) if j % 4 == 1 else gen.gen_case(rng, groups=(j % 2 == 0))
        case['quiet'] = [i for i in range(case['n']) if rng.random() < 0.6] or [0]
        out.append((case, dict(lazy=bool(j % 2), cache=bool(j % 3), strategy=gen.pick_strategy(rng, case), seed=seed * 100 + j)))
    return out


def run(out, info, tier, seed):
    out.trusted_base = common.COMMON_TRUSTED + [
        'modelled by hand: sim_process/next_step_settled/wait_for_dependencies/step/get_outputs/notify_dependencies/advance_progress/'
        'get_max_advance (Sched/Timing.v), World.connect tables and cache_triggering_ancestors (Static/Build.v, Sched/Link.v)',
        'assumed of asyncio: a task runs atomically between suspensions; futures wake their waiters (wake-up liveness is checked by the quiescence test)',
        'theorem premise static_ok (shape facts; the ancestors table dominates every trigger path) is checked per scenario by comparing the model-built tables with the implementation, not yet discharged by a closure theorem']
    out.assumptions = ['simulators are an oracle: any reply sequence (event list); delays that are compared have equal shape (convex group scenarios)']
    sched_check.sched_property(out, info, tier, seed, 'C02', KINDS, monitors.P_C02, gen_opts={'groups': True},
                               case_gen=case_gen, extra_cases=extra_cases(seed),
                               ncases=(220, 2000), variants=[(True, True), (False, True), (True, False)], nontrivial=nontrivial, features=features,
                               known_match=None, hyp=None,
                               extra_obligations=[('Sched.Inv (invariant preserved by every event)', 'Sched/Inv'),
                                                  ('Sched.Guards / Sched.Final', 'Sched/Final')])
    out.coverage['nontrivial_rule'] = 'some output was produced on a connected attribute (a demand beyond the initial and self-steps exists)'


def replay(path, out):
    return sched_check.replay_trace(path, 'C02', monitors.P_C02, KINDS)
