"""C07 - max_advance. Proof (partial, bounds): coq/Props/C07.v. Full statement: monitors.P_C07 on every implementation trace. Tie: trace validation of the max_advance argument of every step."""
from .. import common, sched_check, monitors

KINDS = ['maxadv', 'tables_anc']


def nontrivial(case, run, val):
    # some step was promised less than until (an ancestor or own step limited it)
    return any(l[0] == 'BEGIN' and l[3] < case['until'] for l in run.log) and any(e for e in case['edges'])


def features(case, run, val):
    f = ['groups' if any(case['grp']) else 'flat']
    f += sorted({'edge:' + e['kind'] for e in case['edges']})
    if any(e.get('async') for e in case['edges']): f.append('async')
    f.append('outcome:' + val.impl_kind)
    return f



def run(out, info, tier, seed):
    out.trusted_base = common.COMMON_TRUSTED + [
        'modelled by hand: sim_process/next_step_settled/wait_for_dependencies/step/get_outputs/notify_dependencies/advance_progress/'
        'get_max_advance (Sched/Timing.v), World.connect tables and cache_triggering_ancestors (Static/Build.v, Sched/Link.v)',
        'assumed of asyncio: a task runs atomically between suspensions; futures wake their waiters (wake-up liveness is checked by the quiescence test)',
        'theorem premise static_ok (shape facts; the ancestors table dominates every trigger path) is checked per scenario by comparing the model-built tables with the implementation, not yet discharged by a closure theorem']
    out.assumptions = ['simulators are an oracle: any reply sequence (event list); delays that are compared have equal shape (convex group scenarios)']
    sched_check.sched_property(out, info, tier, seed, 'C07', KINDS, monitors.P_C07, gen_opts={'groups': True},
                               ncases=(220, 2000), variants=[(True, True), (False, True)], nontrivial=nontrivial, features=features,
                               known_match=None, hyp=None,
                               extra_obligations=[('Sched.Inv (invariant preserved by every event)', 'Sched/Inv'),
                                                  ('Sched.Guards / Sched.Final', 'Sched/Final')])
    out.coverage['nontrivial_rule'] = 'some step received max_advance < until'
    out.coverage['non_integral_until_runs'] = float_until_family(out)


def float_until_one(j, frac):
    """`until` need not be a whole number (a duration divided by a step size): steps are performed at the integer times before
    it, and the promise still never exceeds it - a simulator that nothing can trigger is promised exactly `until`"""
    import random
    from .. import simlib, gen
    rng = random.Random(7001 + j)
    case = gen.gen_case(rng, groups=False, clean=1.0, maxn=3)
    case['until'] = case['until'] + frac
    r = simlib.run_case(case, lazy=bool(j % 2), cache=True, strategy='oldest', seed=j)
    if r.build_error is not None or r.outcome != 'ok': return None       # (not a scenario this family is about)
    triggered = {e['b'] for e in case['edges'] if e['da'] in ('ti', 't2')}
    bad = []
    for l in r.log:
        if l[0] != 'BEGIN' or l[3] is None: continue
        if l[3] > case['until']: bad.append(f"{l[1]} began {tuple(l[2])} with max_advance={l[3]} > until={case['until']}")
        elif int(l[1][1:]) not in triggered and l[3] != case['until']: bad.append(f"{l[1]} (no trigger input) began {tuple(l[2])} with max_advance={l[3]}, not until={case['until']}")
    return dict(kind='float_until', j=j, frac=frac, case=case, observed=bad[:3]) if bad else None


def float_until_family(out):
    n = 0
    for j in range(8):
        n += 1
        v = float_until_one(j, 0.5 if j % 2 == 0 else 0.25)
        if v:
            out.violations.append(v); break
    return n


def replay(path, out):
    import json
    r0 = json.load(open(path))
    if r0.get('kind') == 'float_until':
        v = float_until_one(r0['j'], r0['frac'])
        print(v['observed'] if v else 'max_advance never exceeded until')
        if v: print(f'VIOLATION property=C07 replay={path}')
        return 1 if v else 0
    return sched_check.replay_trace(path, 'C07', monitors.P_C07, KINDS)
