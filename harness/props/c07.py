"""C07 - max_advance. Proof (partial, bounds): coq/Props/C07.v. Full statement: monitors.P_C07 on every implementation trace. Tie: trace validation of the max_advance argument of every step."""
from .. import common, sched_check, monitors

KINDS = ['maxadv', 'tables_anc']


def nontrivial(case, run, val):
    # some step was promised less than until (an ancestor or own step limited it)
    return any(l[0] == 'BEGIN' and l[3] < case['until'] for l in run.log) and any(e for e in case['edges'])


def features(case, run, val):
    f = ['groups' if any(case['grp']) else 'flat']
    f += sorted({'edge:' + e['kind'] for e in case['edges']})
    if any(e.get('async') for e in case['edges']): f.append('async')
    f.append('outcome:' + val.impl_kind)
    return f



def run(out, info, tier, seed):
    out.trusted_base = common.COMMON_TRUSTED + [
        'modelled by hand: sim_process/next_step_settled/wait_for_dependencies/step/get_outputs/notify_dependencies/advance_progress/'
        'get_max_advance (Sched/Timing.v), World.connect tables and cache_triggering_ancestors (Static/Build.v, Sched/Link.v)',
        'assumed of asyncio: a task runs atomically between suspensions; futures wake their waiters (wake-up liveness is checked by the quiescence test)',
        'theorem premise static_ok (shape facts; the ancestors table dominates every trigger path) is checked per scenario by comparing the model-built tables with the implementation, not yet discharged by a closure theorem']
    out.assumptions = ['simulators are an oracle: any reply sequence (event list); delays that are compared have equal shape (convex group scenarios)']
    sched_check.sched_property(out, info, tier, seed, 'C07', KINDS, monitors.P_C07, gen_opts={'groups': True},
                               ncases=(220, 2000), variants=[(True, True), (False, True)], nontrivial=nontrivial, features=features,
                               known_match=None, hyp=None,
                               extra_obligations=[('Sched.Inv (invariant preserved by every event)', 'Sched/Inv'),
                                                  ('Sched.Guards / Sched.Final', 'Sched/Final')])
    out.coverage['nontrivial_rule'] = 'some step received max_advance < until'


def replay(path, out):
    return sched_check.replay_trace(path, 'C07', monitors.P_C07, KINDS)
