"""C16 - asynchronous requests. Proof: coq/Props/C16.v. Tie: trace validation with in-process generator simulators that call
mosaik.set_data during their steps (async guard, set_data inputs, refusal)."""
from .. import common, sched_check, monitors, gen

KINDS = {'guard_async', 'guard_input_async', 'inputs', 'model_err:asyncrefused', 'impl_err:async'}


def nontrivial(case, run, val):
    return any(l[0] in ('SETDATA', 'GETDATA') for l in run.log)


def features(case, run, val):
    f = ['groups' if any(case['grp']) else 'flat', 'outcome:' + val.impl_kind]
    if any(e.get('async') for e in case['edges']): f.append('async-edge')
    return f


def case_gen(rng, k):
    case = gen.gen_case(rng, groups=(k % 3 == 0), asyncs=True, clean=1.0, maxn=4)
    if k % 4 == 1:
        # the connection that carries async_requests is itself time-shifted / weak, or the pair has an earlier delayed
        # connection: the input delay of the pair must still be the (zero) delay of the async-requests relation
        for e in [e for e in case['edges'] if e.get('async')]:
            same_src = [f for f in case['edges'] if f['a'] == e['a'] and f['sa'] == e['sa']]
            if len(same_src) != 1: continue
            in_group = bool(case['grp'][e['a']]) and bool(case['grp'][e['b']]) and case['grp'][e['a']][0] == case['grp'][e['b']][0]
            kind = rng.choice(['ts', 'ts', 'w'] if in_group else ['ts'])
            if e['sa'] in ('eo', 'e2') and e['da'] == 'i': continue       # would need initial data on an event source
            e.update(kind=kind, shift=rng.choice([1, 1, 2]) if kind == 'ts' else 0, init=bool(e['da'] == 'i'))
    outs_of = {'time-based': ['po'], 'event-based': ['eo', 'e2'], 'hybrid': ['po', 'eo', 'e2']}
    # permitted asynchronous get_data requests of the agents towards their async-requests partners
    for e in case['edges']:
        if e.get('async') and rng.random() < 0.6:
            gd = case['beh'][e['b']].setdefault('get_data', {})
            for tt in range(case['until']):
                if rng.random() < 0.4: gd.setdefault(f'{tt},0', []).append([f"S{e['a']}", rng.choice(outs_of[case['types'][e['a']]])])
    if k % 7 == 6 and case['n'] >= 2 and not any(e.get('async') and e['a'] == 0 and e['b'] == 1 for e in case['edges']):
        # a set_data / get_data towards a simulator without async_requests connection must be refused
        if k % 2: case['beh'][1].setdefault('set_data', {})['0,0'] = [['S0', 'i', 'setX@0']]
        else: case['beh'][1].setdefault('get_data', {}).setdefault('0,0', []).append(['S0', outs_of[case['types'][0]][0]])
        case['expect_refusal'] = True
    elif k % 7 in (2, 4):
        # ... also when the same simulator has made permitted requests before (in the same step or in earlier steps)
        asyncs = [e for e in case['edges'] if e.get('async')]
        if asyncs:
            e = rng.choice(asyncs); b = e['b']
            targets = [x for x in range(case['n']) if x != b and not any(f.get('async') and f['a'] == x and f['b'] == b for f in case['edges'])]
            if targets:
                x = rng.choice(targets)
                attr = {'time-based': 'i', 'event-based': 'ti', 'hybrid': 'i'}[case['types'][x]]
                tt = rng.randint(0, max(0, case['until'] - 1))
                sd = case['beh'][b].setdefault('set_data', {})
                # make sure a permitted request precedes it in that step
                ins = {'time-based': ['i'], 'event-based': ['ti', 't2'], 'hybrid': ['i', 'ti', 't2']}[case['types'][e['a']]]
                free = [y for y in ins if not any(f['a'] == b and f['b'] == e['a'] and f['da'] == y for f in case['edges'])]
                lst = sd.setdefault(f'{tt},0', [])
                if free and not lst: lst.append([f"S{e['a']}", free[0], f'set{b}.0@{tt}', 0])
                if rng.random() < 0.5:
                    lst.append([f'S{x}', attr, f'setX@{tt}', 0])
                else:       # a forbidden get_data after the permitted set_data of that step
                    case['beh'][b].setdefault('get_data', {}).setdefault(f'{tt},0', []).append([f'S{x}', outs_of[case['types'][x]][0]])
                case['beh'][b].pop('set_data_batched', None)
                case['expect_refusal'] = True
    return case


def run(out, info, tier, seed):
    out.trusted_base = common.COMMON_TRUSTED + ['modelled by hand: MosaikRemote.set_data/_assert_async_requests, inputs_from_set_data, successors_to_wait_for (Sched/Plane.v, Sched/Timing.v); MosaikRemote.get_data: only its permission test is modelled (the one set_data shares); the data it returns is not']
    out.assumptions = ['register semantics: a value written twice to the same (entity, attribute, writer) before the next step of the target is superseded']
    sched_check.sched_property(out, info, tier, seed, 'C16', KINDS, monitors.P_C16, case_gen=case_gen,
                               ncases=(220, 2500), variants=[(True, True), (False, True), (False, False)],
                               nontrivial=nontrivial, features=features,
                               extra_obligations=[('Sched.Final (async bound)', 'Sched/Final'), ('Sched.DataP', 'Sched/DataP'), ('Sched.SetData (set_data stays until the next step and is delivered by it)', 'Sched/SetData')])
    out.coverage['nontrivial_rule'] = 'a set_data or an asynchronous get_data call was issued during the run'


def replay(path, out):
    return sched_check.replay_trace(path, 'C16', monitors.P_C16, KINDS)
