"""C18 - bulk connection helpers.  Proof: coq/Props/C18.v (all choice sequences).  Tie: correspondence of the extracted model
with mosaik.util.connect_randomly / connect_many_to_one on recorded random choices; the statement itself as a monitor."""
import collections, json, random
from .. import common
from mosaik import util


class Recorder:
    def __init__(self, seed):
        self.rng = random.Random(seed); self.shuffles = []; self.ints = []
    def shuffle(self, lst):
        self.rng.shuffle(lst); self.shuffles.append(list(lst))
    def randint(self, a, b):
        v = self.rng.randint(a, b); self.ints.append(v); return v


class FakeWorld:
    def __init__(self): self.conns = []; self.flows = []
    def connect(self, src, dest, *attrs, **kw):
        self.conns.append((src, dest))
        # the attribute pairs as World.connect reads them (a plain name stands for the pair (name, name)) and the options
        self.flows.append((src, dest, frozenset((a, a) if isinstance(a, str) else tuple(a) for a in attrs), tuple(sorted(kw.items()))))


ATTR_SPECS = [(), ('a',), ('a', 'b'), (('val', 'a'), ('val', 'b')), ('aux', ('aux', 'b')), (('x', 'y'),), ('a', ('b', 'c'), ('b', 'd'))]


def attr_specs_check(violations):
    """every connection a helper makes carries exactly the attribute pairs (and options) it was called with"""
    n = 0
    for spec in ATTR_SPECS:
        want = frozenset((a, a) if isinstance(a, str) else tuple(a) for a in spec)
        for asy in (False, True):
            w = FakeWorld(); util.connect_many_to_one(w, [1, 2, 3], 9, *spec, async_requests=asy); n += 1
            if [f[:2] for f in w.flows] != [(1, 9), (2, 9), (3, 9)] or any(f[2] != want or dict(f[3]).get('async_requests', False) != asy for f in w.flows):
                violations.append(dict(kind='bulk', helper='connect_many_to_one', attrs=[list(x) if isinstance(x, tuple) else x for x in spec], async_requests=asy,
                                       observed=[f'connections made: {[(f[0], f[1], sorted(f[2])) for f in w.flows]}; every source must be connected with {sorted(want)}']))
        for evenly in (True, False):
            w = FakeWorld(); rec = Recorder(3); old = util.random; util.random = rec
            try:
                util.connect_randomly(w, [1, 2, 3, 4], [7, 8], *spec, evenly=evenly); n += 1
            finally:
                util.random = old
            if sorted(f[0] for f in w.flows) != [1, 2, 3, 4] or any(f[2] != want for f in w.flows):
                violations.append(dict(kind='bulk', helper='connect_randomly', attrs=[list(x) if isinstance(x, tuple) else x for x in spec], evenly=evenly,
                                       observed=[f'connections made: {[(f[0], f[1], sorted(f[2])) for f in w.flows]}; every source must be connected with {sorted(want)}']))
    # the entity sets may be any iterable, also one that can be walked only once (generator, iterator, filter object)
    kinds = {'tuple': lambda l: tuple(l), 'generator': lambda l: (x for x in l), 'iterator': lambda l: iter(l), 'filter': lambda l: filter(lambda x: True, l),
             'dict keys': lambda l: dict.fromkeys(l).keys()}
    for kind, mk in kinds.items():
        w = FakeWorld(); util.connect_many_to_one(w, mk([1, 2, 3]), 9, 'a'); n += 1
        if [f[:2] for f in w.flows] != [(1, 9), (2, 9), (3, 9)]:
            violations.append(dict(kind='bulk', helper='connect_many_to_one', attrs=['a'], src_set=kind,
                                   observed=[f'src_set given as a {kind}: connections made {[(f[0], f[1]) for f in w.flows]}; every one of the sources 1, 2, 3 must be connected to 9']))
        for evenly in (True, False):
            w = FakeWorld(); rec = Recorder(5); old = util.random; util.random = rec; res = ()
            try:
                # (src_set is declared a sequence - it is sliced; dest_set is copied into a list first, so any iterable will do)
                res = util.connect_randomly(w, [1, 2, 3, 4] if kind != 'tuple' else (1, 2, 3, 4), mk([7, 8]), 'a', evenly=evenly); n += 1
            except Exception as e:
                w.flows.append((f'{type(e).__name__}: {e}', None, frozenset(), ()))
            finally:
                util.random = old
            if sorted(f[0] for f in w.flows) != [1, 2, 3, 4] or set(res) != {f[1] for f in w.flows} or not {f[1] for f in w.flows} <= {7, 8}:
                violations.append(dict(kind='bulk', helper='connect_randomly', attrs=['a'], src_set=kind, evenly=evenly,
                                       observed=[f'entity sets given as {kind}s: connections made {[(f[0], f[1]) for f in w.flows]}, returned {sorted(res)}']))
    return n


def raising_connect_family(violations):
    """world.connect refuses one of the sources (as it does for an entity whose model lacks the attribute): the helper must not
    come back as if nothing had happened - either the error reaches the caller or every source is connected"""
    from mosaik.exceptions import ScenarioError
    class Refusing(FakeWorld):
        def __init__(self, bad): super().__init__(); self.bad = bad
        def connect(self, src, dest, *attrs, **kw):
            if src == self.bad: raise ScenarioError(f'the source attribute does not exist ({src})')
            super().connect(src, dest, *attrs, **kw)
    n = 0
    for evenly in (True, False):
        for nsrc, ndest in ((5, 2), (4, 4), (3, 1)):
            for bad in range(nsrc):
                n += 1
                w = Refusing(100 + bad); rec = Recorder(bad); old = util.random; util.random = rec
                src = list(range(100, 100 + nsrc)); out = 'returned'
                try:
                    util.connect_randomly(w, src, list(range(200, 200 + ndest)), 'a', evenly=evenly)
                except ScenarioError: out = 'ScenarioError'
                except BaseException as e: out = 'crash:' + type(e).__name__
                finally: util.random = old
                if out == 'returned' and sorted(s_ for s_, _ in w.conns) != src:
                    violations.append(dict(kind='bulk', helper='connect_randomly', attrs=['a'], evenly=evenly, refusing_source=bad, nsrc=nsrc, ndest=ndest,
                                           observed=[f'world.connect raised ScenarioError for source {100 + bad}, yet connect_randomly returned normally with connections {w.conns}: source {100 + bad} is not connected']))
                elif out.startswith('crash'):
                    violations.append(dict(kind='bulk', helper='connect_randomly', attrs=['a'], evenly=evenly, refusing_source=bad, observed=[out]))
    return n


def real_world_one(ninst, per, nsrc, evenly, maxc, sd):
    """the helpers on a real World with real Entity objects: the destinations are entities of SEVERAL instances of one SimConfig
    entry, so their entity ids coincide (Bus-0.e, Bus-1.e, ...) and only the simulator instance tells them apart"""
    import mosaik
    w = mosaik.World({'Bus': {'python': 'harness.simlib:GSim'}, 'Gen': {'python': 'harness.simlib:GSim'}}, skip_greetings=True)
    try:
        dests = []
        for _ in range(ninst): dests += w.start('Bus').M.create(per)
        srcs = w.start('Gen').M.create(nsrc)
        made = []; orig = w.connect
        def rec(s_, d_, *a, **k):
            made.append((s_.full_id, d_.full_id)); return orig(s_, d_, *a, **k)
        w.connect = rec
        random.seed(sd)
        kw = {} if maxc is None else {'max_connects': maxc}
        try:
            res = util.connect_randomly(w, list(srcs), list(dests), ('po', 'i'), evenly=evenly, **kw)
        except BaseException as e:
            return [f'the call failed with {type(e).__name__}: {e}']
        bad = []
        if [a for a, _ in made] != [e.full_id for e in srcs]: bad.append(f'not every source connected exactly once (in order): {made}')
        cnt = collections.Counter(b for _, b in made)
        if evenly:
            full = [cnt.get(e.full_id, 0) for e in dests]
            if max(full) - min(full) > 1: bad.append(f'evenly: per-destination counts differ by more than one: {dict(cnt)}')
        elif maxc is not None and any(v > maxc for v in cnt.values()): bad.append(f'a destination received more than max_connects={maxc}: {dict(cnt)}')
        got = sorted(e.full_id for e in res)
        if got != sorted(cnt): bad.append(f'returned set {got} != connected destinations {sorted(cnt)}')
        return bad
    finally:
        w.shutdown()


REAL_WORLD = [(2, 2, 4, True, None), (3, 1, 7, True, None), (2, 3, 3, True, None), (2, 2, 6, False, 2), (2, 2, 4, False, None), (3, 2, 9, False, 2), (2, 1, 2, False, 1)]


def real_world_family(violations, seed):
    n = 0
    for (ninst, per, nsrc, evenly, maxc) in REAL_WORLD:
        for sd in range(3):
            n += 1
            bad = real_world_one(ninst, per, nsrc, evenly, maxc, seed * 100 + sd)
            if bad:
                violations.append(dict(kind='real_world', instances=ninst, per_instance=per, nsrc=nsrc, evenly=evenly, max_connects=maxc, seed=seed * 100 + sd, observed=bad[:2]))
                return n
    return n


def call(nsrc, ndest, evenly, maxc, seed):
    rec = Recorder(seed); w = FakeWorld()
    src = list(range(100, 100 + nsrc)); dest = list(range(200, 200 + ndest))
    old = util.random
    util.random = rec
    try:
        kw = {} if maxc is None else {'max_connects': maxc}
        try:
            src0, dest0 = list(src), list(dest)
            res = util.connect_randomly(w, src, dest, 'a', evenly=evenly, **kw); out = 'ok'
            if src != src0 or dest != dest0:
                # the helpers work on the caller's lists: these must come back as they were given
                out = f'the caller\'s own lists were changed (src_set {src0} -> {src}, dest_set {dest0} -> {dest})'; src, dest = src0, dest0
        except AssertionError:
            res = None; out = 'assert'
        except BaseException as e:
            res = None; out = 'crash:' + type(e).__name__
    finally:
        util.random = old
    return src, dest, w.conns, res, out, rec


def monitor(nsrc, ndest, evenly, maxc, src, dest, conns, res, out):
    feasible = ndest > 0 and (evenly or maxc is None or nsrc <= ndest * maxc)
    if not feasible:
        return [] if out == 'assert' else [f'infeasible call (src={nsrc}, dest={ndest}, max_connects={maxc}) ended with {out}']
    if out != 'ok': return [f'feasible call ended with {out} after {len(conns)} connections']
    bad = []
    if [s for s, _ in conns] != src: bad.append('not every source connected exactly once (in order)')
    cnt = collections.Counter(d for _, d in conns)
    if evenly:
        full = [cnt.get(d, 0) for d in dest]
        if full and max(full) - min(full) > 1: bad.append(f'evenly: per-destination counts differ by more than one: {dict(cnt)}')
    elif maxc is not None and any(v > maxc for v in cnt.values()): bad.append(f'a destination received more than max_connects={maxc}: {dict(cnt)}')
    if set(res) != set(cnt): bad.append(f'returned set {sorted(res)} != connected destinations {sorted(cnt)}')
    return bad


def run(out, info, tier, seed):
    out.checker_cmd = 'make -C coq && coqc -Q coq MV coq/Props/C18.v'
    out.trusted_base = common.COMMON_TRUSTED + ['regenerated from the source and tied to the model (harness/py2coq_bulk.py, Ext/BulkTie.v): util.connect_randomly/_connect_evenly/_connect_randomly/connect_many_to_one; random.shuffle/randint are an oracle argument; entities are numbers (Entity hashing and equality are exercised by the real-World family only)']
    obl, log, broken = common.check_props_file('C18', info)
    for o in obl: out.add_obligation(o['name'], o['ok'], o['assumptions'])
    bad = common.hygiene()
    out.add_obligation('hygiene: no Admitted/admit/Axiom/Parameter/Unset Guard in coq/', not bad, '; '.join(bad[:5]))
    if broken: out.notes.append('broken files: ' + ', '.join(broken) + '\n' + log[-1500:])
    nseeds = 6 if tier == 'quick' else 200
    reqs, impls, descs, violations = [], [], [], []
    n = 0; nontriv = 0
    sl = lambda l: f"{len(l)} " + ' '.join(map(str, l)) if l else '0'
    for nsrc in range(0, 8):
        for ndest in range(1, 7):
            for evenly, maxc in [(True, None), (False, None), (False, 1), (False, 2), (False, 3), (True, 1), (True, 2), (True, 4)]:   # (max_connects is documented to matter only with evenly=False)
                for sd in range(nseeds):
                    n += 1
                    src, dest, conns, res, o, rec = call(nsrc, ndest, evenly, maxc, seed * 1000 + sd)
                    d = dict(kind='bulk', nsrc=nsrc, ndest=ndest, evenly=evenly, max_connects=maxc, seed=seed * 1000 + sd)
                    fails = monitor(nsrc, ndest, evenly, maxc, src, dest, conns, res, o)
                    if fails: violations.append(dict(d, observed=fails[:2], connections=conns))
                    if nsrc >= 2 and ndest >= 2: nontriv += 1
                    if evenly:
                        reqs.append(f"U_EVENLY {sl(src)} {ndest} {len(rec.shuffles)} " + ' '.join(sl(p) for p in rec.shuffles))
                    else:
                        # randint returns an index into the current pool
                        reqs.append(f"U_RANDOM {sl(src)} {sl(dest)} {'0' if maxc is None else '1 %d' % maxc} {sl(rec.ints)}")
                    impls.append('ok ' + ' '.join(f'{a}:{b}' for a, b in conns) if o == 'ok' else ('precondition' if o == 'assert' and not conns else o))
                    descs.append(d)
    # connect_many_to_one
    for nsrc in range(0, 6):
        w = FakeWorld(); util.connect_many_to_one(w, list(range(100, 100 + nsrc)), 999, 'a'); n += 1
        if w.conns != [(s, 999) for s in range(100, 100 + nsrc)]:
            violations.append(dict(kind='bulk', helper='connect_many_to_one', nsrc=nsrc, observed=[str(w.conns)]))
    n += attr_specs_check(violations)
    n += real_world_family(violations, seed)
    n += raising_connect_family(violations)
    mism = []
    if info.driver_ok:
        got = common.batch_model(reqs)
        for q, i, g, d in zip(reqs, impls, got, descs):
            gi = g.rstrip()
            if gi != i.rstrip(): mism.append(dict(d, model=g, implementation=i))
        out.add_obligation('correspondence: extracted Util model = mosaik.util on the recorded random choices', not mism, f'{len(reqs)} calls')
        if mism: out.notes.append('first disagreements: ' + json.dumps(mism[:3]))
    else:
        out.add_obligation('correspondence: extracted model available', False, info.driver_msg[-300:])
    for v in violations[:1]: out.violations.append(v)
    out.coverage = {'evaluations': n, 'distinct_nontrivial': nontriv, 'traces_validated_against_impl': len(reqs) if info.driver_ok else 0,
                    'rule': f'source sizes 0..7 x destination sizes 1..6 x (evenly | uneven with max_connects in {{inf, 1, 2, 3}}) x {nseeds} seeds, random choices recorded and replayed on the model; '
                            'every helper also called with six attribute specifications (plain names, pairs, one source attribute fanned out to two destination attributes) - each connection must carry exactly the requested pairs; '
                            'connect_randomly on a real World whose destinations are entities of two or three instances of one SimConfig entry (coinciding entity ids); non-trivial = at least two sources and two destinations',
                    'samples': [descs[50], {'request': reqs[50], 'implementation': impls[50]}], 'monitor_failures': len(violations), 'correspondence_mismatches': len(mism)}


def replay(path, out):
    r = json.load(open(path))
    if r.get('kind') == 'bulk' and 'attrs' in r:
        v = []; attr_specs_check(v); raising_connect_family(v); [print(x['helper'], x['attrs'], x['observed']) for x in v]
        if v: print(f'VIOLATION property=C18 replay={path}')
        return 1 if v else 0
    if r.get('kind') == 'real_world':
        fails = real_world_one(r['instances'], r['per_instance'], r['nsrc'], r['evenly'], r['max_connects'], r['seed'])
        [print('monitor:', f) for f in fails]
        if fails: print(f'VIOLATION property=C18 replay={path}')
        return 1 if fails else 0
    if r.get('kind') != 'bulk' or 'seed' not in r:
        print(json.dumps(r, indent=1)[:2000]); print('re-run ./check C18'); return 1
    src, dest, conns, res, o, rec = call(r['nsrc'], r['ndest'], r['evenly'], r['max_connects'], r['seed'])
    fails = monitor(r['nsrc'], r['ndest'], r['evenly'], r['max_connects'], src, dest, conns, res, o)
    print('outcome:', o, 'connections:', conns); [print('monitor:', f) for f in fails]
    if fails: print(f'VIOLATION property=C18 replay={path}')
    return 1 if fails else 0
