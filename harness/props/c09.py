"""C09 - same-time loop guard. Proof: coq/Props/C09.v. Tie: trace validation with max_loop_iterations in {1,2,3,100}: the model must predict the abort (LOOPFAIL enabled) and never see a BEGIN beyond the bound."""
from .. import common, sched_check, monitors, gen

KINDS = ['impl_err:loop', 'model_err:loopexpected']


def nontrivial(case, run, val):
    return val.impl_kind == 'loop' or any(l[0] == 'BEGIN' and any(x > 0 for x in l[2][1:]) for l in run.log)


def features(case, run, val):
    f = ['groups' if any(case['grp']) else 'flat']
    f += sorted({'edge:' + e['kind'] for e in case['edges']})
    if any(e.get('async') for e in case['edges']): f.append('async')
    f.append('outcome:' + val.impl_kind)
    return f



def case_gen(rng, k):
    case = gen.gen_loop_case(rng) if k % 4 else gen.gen_case(rng, groups=True, loops=True)
    if k % 3 == 1:
        # the value carried round the loop is None (a bare ping): None is a value like any other and triggers like any other
        for b in case['beh']:
            if b.get('type') != 'time-based' and rng.random() < 0.8:
                b['none_outputs'] = [key for key in b.get('outputs', {}) if rng.random() < 0.6]
                b['none_attrs'] = ['po', 'eo', 'e2']
    return case


def run(out, info, tier, seed):
    out.trusted_base = common.COMMON_TRUSTED + [
        'modelled by hand: sim_process/next_step_settled/wait_for_dependencies/step/get_outputs/notify_dependencies/advance_progress/'
        'get_max_advance (Sched/Timing.v), World.connect tables and cache_triggering_ancestors (Static/Build.v, Sched/Link.v)',
        'assumed of asyncio: a task runs atomically between suspensions; futures wake their waiters (wake-up liveness is checked by the quiescence test)',
        'theorem premise static_ok (shape facts; the ancestors table dominates every trigger path) is checked per scenario by comparing the model-built tables with the implementation, not yet discharged by a closure theorem']
    out.assumptions = ['simulators are an oracle: any reply sequence (event list); delays that are compared have equal shape (convex group scenarios)']
    sched_check.sched_property(out, info, tier, seed, 'C09', KINDS, monitors.P_C09, gen_opts={'groups': True},
                               ncases=(260, 2500), case_gen=case_gen, variants=[(True, True), (False, True)], nontrivial=nontrivial, features=features,
                               known_match=None, hyp=None,
                               extra_obligations=[('Sched.Inv (invariant preserved by every event)', 'Sched/Inv'),
                                                  ('Sched.Guards / Sched.Final', 'Sched/Final')])
    out.coverage['nontrivial_rule'] = 'a sub-step (weak loop iteration) was executed or the guard fired'


def replay(path, out):
    return sched_check.replay_trace(path, 'C09', monitors.P_C09, KINDS)
