"""stub simulators for C15: they record which requests reach them and with which arguments"""
import mosaik_api_v3
CALLS = []
META = {}


class New(mosaik_api_v3.Simulator):
    """v3-style signatures (init takes time_resolution, step takes max_advance)"""
    def __init__(self): super().__init__({})
    def init(self, sid, time_resolution=None, **kw):
        CALLS.append(('init', time_resolution is not None)); return dict(META)
    def create(self, num, model): return []
    def setup_done(self): CALLS.append(('setup_done',))
    def step(self, time, inputs, max_advance='MISSING'):
        CALLS.append(('step', 3 if max_advance != 'MISSING' else 2))
        if time == 7: raise ValueError('boom at 7')
        return time + 1
    def get_data(self, outputs):
        CALLS.append(('get_data', len(outputs))); return {}


class Old(mosaik_api_v3.Simulator):
    """pre-v3 signatures"""
    def __init__(self): super().__init__({})
    def init(self, sid, **kw):
        CALLS.append(('init', 'time_resolution' in kw)); return dict(META)
    def create(self, num, model): return []
    def setup_done(self): CALLS.append(('setup_done',))
    def step(self, time, inputs, *extra):
        CALLS.append(('step', 2 + len(extra)))
        if time == 7: raise ValueError('boom at 7')
        return time + 1
    def get_data(self, outputs):
        CALLS.append(('get_data', len(outputs))); return {}


def _make(kind):
    """two different simulator classes with the SAME module and qualified name (as a plug-in loader or a factory produces them)"""
    if kind == 'new':
        class Sim(New): pass
    else:
        class Sim(Old): pass
    return Sim


TWIN_NEW = _make('new')
TWIN_OLD = _make('old')
