"""Trace validation: replay a recorded run of the real scheduler on the extracted model (DESIGN.md 2.2b).

validate(run, model) -> Validation with a list of discrepancies, each of a *kind*; the per-property checks
select the kinds they are responsible for:
  guard_input / guard_lazy / guard_async / notwaiting / timemismatch   (a BEGIN the model does not allow)
  maxadv, inputs                                                        (BEGIN arguments differ)
  quiesce_enabled, notdone                                              (model can move where the implementation sleeps)
  model_err:<kind>, impl_err:<kind>, outcome                            (errors the other side does not have)
"""
from __future__ import annotations
import re
from . import simlib

ATTR = {'i': 0, 'ti': 1, 'po': 2, 'eo': 3, 'e2': 4, 't2': 5}
RATTR = {v: k for k, v in ATTR.items()}


class Validation:
    def __init__(self):
        self.disc = []          # dicts: kind, at (event index), detail
        self.impl_outcome = 'ok'
        self.impl_kind = 'ok'   # ok | deadlock | loop | reply | outtime | internal | async | scenario | other
        self.impl_sim = None
        self.model_final = None
        self.events = 0
        self.begins = []        # (index, sid, tiers, maxadv, inputs canon) observed
        self.static_lines = []
        self.event_lines = []
        self.replies = []
        self.features = set()
        self.model_build = None
        self.convex = True
        self.certified = None
        self.flat_certified = None
        self.uniform_certified = None
        self.ibu = None
        self.bound = None

    def kinds(self):
        return {d['kind'] for d in self.disc}


def classify_outcome(run):
    oc = run.outcome
    if oc == 'ok': return 'ok', None
    if oc == 'DEADLOCK': return 'deadlock', None
    if oc.startswith('Hang:'): return 'hang', None
    m = re.search(r'Simulator (\S+) has performed a sub-step', oc)
    if m: return 'loop', m.group(1)
    m = re.search(r'next step time returned by.*for simulator "([^"]+)"', oc)
    if m: return 'reply', m.group(1)
    m = re.search(r'time-based simulator must always return a next step, but simulator "([^"]+)"', oc)
    if m: return 'reply', m.group(1)
    m = re.search(r'Output time .* for simulator "([^"]+)"', oc)
    if m: return 'outtime', m.group(1)
    if 'cannot progress backwards' in oc: return 'internal:backwards', None
    m = re.search(r'Simulator (\S+) is trying to perform a step at time', oc)
    if m: return 'internal:past', m.group(1)
    if oc.startswith('ScenarioError') and ('Async' in oc or 'No connection from' in oc): return 'async', None
    if oc.startswith('ScenarioError') or oc.startswith('build:ScenarioError'): return 'scenario', None
    if oc.startswith('AssertionError'): return 'internal:assert', None
    return 'other:' + oc.split(':')[0], None


def src_key(srcfull, idx):
    """source entity -> the model's key: entity 'e' of simulator i is i, agent entity 'a<w>' (set_data only) is w * nsims + i"""
    sid, eid = srcfull.split('.', 1)
    w = int(eid[1:]) if eid != 'e' else 0
    return w * len(idx) + idx[sid]


def is_mirror(eid): return isinstance(eid, str) and eid.startswith('m')


def mirror_diffs(inputs):
    """entities m1, m2, ... of a simulator are connected exactly like its entity e (to the entities of the same index):
    what each of them is given must be what e is given, with its own index in the source ids and value tokens"""
    def norm(eid, attrs):
        suf = '' if eid == 'e' else '#' + eid
        out = {}
        for a, m in attrs.items():
            for srcfull, v in m.items():
                sid_, seid = srcfull.split('.', 1)
                if seid.startswith('a') or str(v).startswith('set'): continue           # set_data goes to entity e only
                if seid != eid: return None
                if isinstance(v, str) and '@' in v and not v.startswith('init'):
                    if suf and not v.endswith(suf): return None
                    if suf: v = v[:-len(suf)]
                out[(a, sid_)] = v
        return out
    base = norm('e', inputs.get('e', {}))
    bad = []
    for eid in inputs:
        if is_mirror(eid):
            got = norm(eid, inputs[eid])
            if got != base: bad.append((eid, inputs[eid], inputs.get('e', {})))
    return bad


def canon_inputs(inputs, idx, tok):
    trip = []
    for eid, attrs in inputs.items():
        if is_mirror(eid): continue
        for a, m in attrs.items():
            for srcfull, v in m.items():
                trip.append((ATTR[a], src_key(srcfull, idx), None if v is None else tok(v)))
    return sorted(trip, key=lambda x: (x[0], x[1], -1 if x[2] is None else x[2]))


def show_inp(trip):
    return ';'.join(f"{a}<-{s}={'N' if v is None else v}" for a, s, v in trip)


ATTRS = {'time-based': ['i', 'po'], 'event-based': ['ti', 't2', 'eo', 'e2'], 'hybrid': ['i', 'ti', 't2', 'po', 'eo', 'e2']}
TYPE_ID = {'time-based': 0, 'event-based': 1, 'hybrid': 2}


def attr_facts(types, e):
    """what ModelMock derives from GSim's meta for the attribute pair of edge e (see harness/simlib.GSim.init)"""
    ta, tb = types[e['a']], types[e['b']]
    sa, da = e['sa'], e['da']
    src_is_out = sa in ATTRS[ta]
    dst_is_in = da in ATTRS[tb]
    persistent = src_is_out and (ta == 'time-based' or (ta == 'hybrid' and sa not in ('eo', 'e2')))
    trigger = dst_is_in and (tb == 'event-based' or (tb == 'hybrid' and da in ('ti', 't2')))
    nontrigger = dst_is_in and not trigger
    return src_is_out, dst_is_in, nontrigger, trigger, persistent


def convex(case):
    """no walk between two members of a group's subtree leaves that subtree (DESIGN.md 3.2): then all delays that
    are ever compared have equal shape.  Non-convex scenarios belong to known finding F9/F13."""
    n = case['n']; grp = [tuple(g) for g in case['grp']]
    adj = {i: set() for i in range(n)}
    for e in case['edges']: adj[e['a']].add(e['b'])
    def reach(srcs):
        seen = set(srcs); todo = list(srcs)
        while todo:
            x = todo.pop()
            for y in adj[x]:
                if y not in seen: seen.add(y); todo.append(y)
        return seen
    groups = {g[:k] for g in grp for k in range(1, len(g) + 1)}
    for G in groups:
        M = {i for i in range(n) if grp[i][:len(G)] == G}
        out_first = {y for x in M for y in adj[x] if y not in M}
        if not out_first: continue
        if reach(out_first) & M: return False
    return True


def scenario_lines(case, lazy, cache, tok, start_order):
    """B_* lines: the scenario as the model's `prepare` wants it; simulators are numbered in start order"""
    idx = {s: i for i, s in enumerate(start_order)}
    parents, gids = simlib.gtab_of(case['grp'])
    L = [f"B_NEW {case['n']} {case['until']} {case.get('maxloop', 100)} {int(lazy)} {int(cache)}",
         f"B_GT {len(parents)} {' '.join(map(str, parents))}"]
    for k in range(case['n']):
        L.append(f"B_SIM {idx[f'S{k}']} {gids[tuple(case['grp'][k])]} {TYPE_ID[case['types'][k]]}")
    for e in case['edges']:
        f = attr_facts(case['types'], e)
        shift = e.get('shift', 1) if e['kind'] == 'ts' else 0
        weak = e['kind'] == 'w'
        init = bool(e.get('init'))
        itok = tok(f"init{e['a']}-{e['b']}") if init else 0
        L.append(f"B_CONN {idx['S%d' % e['a']]} {idx['S%d' % e['b']]} {ATTR.get(e['sa'], 9)} {ATTR.get(e['da'], 9)} "
                 + ' '.join(str(int(x)) for x in f) + f" {shift} {int(weak)} {int(init)} {int(cache)} {int(bool(e.get('async')))} {itok}")
    for (i, t) in case.get('init', []):
        L.append(f"B_INITEV {idx[f'S{i}']} {t}")
    return L, idx


def impl_dump(run, idx, tok):
    """the implementation's tables in the canonical form of ocaml/build_cmds.ml:dump"""
    out = []
    w = run.world
    for s, sim in w.sims.items():
        i = idx[s]
        for k, d in sim.input_delays.items(): out.append(f"indel {i} {idx[k.sid]} {simlib.iv(d)}")
        for j, d in sim.successors.items(): out.append(f"succ {i} {idx[j.sid]} {simlib.iv(d)}")
        for j, d in sim.successors_to_wait_for.items(): out.append(f"succw {i} {idx[j.sid]} {simlib.iv(d)}")
        # (mirror entities 'm<k>' repeat the data-flow of entity 'e'; the model has one entity per simulator)
        for p, dests in sim.triggers.items():
            if is_mirror(p[0]): continue
            for dest, d in dests: out.append(f"trig {i} {ATTR[p[1]]} {idx[dest.sid]} {simlib.iv(d)}")
        for (eid, a), dests in sim.output_to_push.items():
            if is_mirror(eid): continue
            for (dest, sh, (deid, da)) in dests: out.append(f"push {i} {ATTR[a]} {idx[dest.sid]} {simlib.iv(sh)} {ATTR[da]}")
        for (src, delay), flows in sim.pulled_inputs.items():
            for (sp, dp) in flows:
                if is_mirror(sp[0]): continue
                out.append(f"pull {i} {idx[src.sid]} {simlib.iv(delay)} {ATTR[sp[1]]} {ATTR[dp[1]]}")
        if sim.output_request: out.append(f"outreq {i}")
        for eid, attrs in run.init_persist.get(s, {}).items():
            if is_mirror(eid): continue
            for a, m in attrs.items():
                for srcfull, v in m.items():
                    out.append(f"pers {i} {ATTR[a]} {idx[srcfull.split('.')[0]]} {'N' if v is None else tok(v)}")
        for pos, (t, dd) in enumerate((run.init_outputs.get(s) or {}).items()):
            for a, v in dd.get('e', {}).items(): out.append(f"cinit {i} {pos} {t} {ATTR[a]} {tok(v)}")
        for a, d in sim.triggering_ancestors.items(): out.append(f"anc {i} {idx[a.sid]} {simlib.iv(d)}")
    return ';'.join(sorted(out))


def static_lines(run, case, lazy, cache, tok):
    world = run.world
    sids = list(world.sims); idx = {s: i for i, s in enumerate(sids)}
    L = [f"S_NEW {len(sids)} {case['until']} {case.get('maxloop', 100)} {int(lazy)} {int(cache)}"]
    ports = {}
    for s in sids:
        sim = world.sims[s]; i = idx[s]
        L.append(f"S_SIM {i} {len(sim.progress.time)} {int(bool(sim.output_request))} {int(sim.type == 'time-based')}")
        for t in run.init_nexts[s]: L.append(f"S_INIT {i} {simlib.tm(t)}")
        for k, d in sim.input_delays.items(): L.append(f"S_INDEL {i} {idx[k.sid]} {simlib.iv(d)}")
        for j, d in sim.successors.items(): L.append(f"S_SUCC {i} {idx[j.sid]} {simlib.iv(d)}")
        for j, d in sim.successors_to_wait_for.items(): L.append(f"S_SUCCW {i} {idx[j.sid]} {simlib.iv(d)}")
        ports[s] = {p: ATTR[p[1]] for p in sim.triggers if not is_mirror(p[0])}
        for p, dests in sim.triggers.items():
            if is_mirror(p[0]): continue
            for dest, d in dests: L.append(f"S_TRIG {i} {ports[s][p]} {idx[dest.sid]} {simlib.iv(d)}")
        for a, d in sim.triggering_ancestors.items(): L.append(f"S_ANC {i} {idx[a.sid]} {simlib.iv(d)}")
        for (src, delay), flows in sim.pulled_inputs.items():
            for (sp, dp) in sorted(flows):
                if is_mirror(sp[0]): continue
                L.append(f"S_PULL {i} {idx[src.sid]} {delay.tiers[0]} {ATTR[sp[1]]} {ATTR[dp[1]]}")
        for (eid, a), dests in sim.output_to_push.items():
            if is_mirror(eid): continue
            for (dest, sh, (deid, da)) in dests:
                L.append(f"S_PUSH {i} {ATTR[a]} {idx[dest.sid]} {sh.tiers[0]} {ATTR[da]}")
        if run.init_outputs.get(s):
            for t, dd in run.init_outputs[s].items():
                L.append(f"S_IOUT {i} {t} " + ' '.join(f"{ATTR[a]} {tok(v)}" for a, v in dd.get('e', {}).items()))
        for eid, attrs in run.init_persist.get(s, {}).items():
            if is_mirror(eid): continue
            for a, m in attrs.items():
                for srcfull, v in m.items():
                    L.append(f"S_IPERS {i} {ATTR[a]} {idx[srcfull.split('.')[0]]}" + ("" if v is None else f" {tok(v)}"))
    L.append("S_GO")
    return L, idx, ports


def validate(run, case, model, lazy=True, cache=True, tables_from='model') -> Validation:
    """tables_from='model': the model builds its own static tables from the scenario (and they are compared with the
    implementation's); 'impl': the implementation's tables are loaded into the model (certifying style)."""
    v = Validation()
    v.impl_outcome = run.outcome
    v.impl_kind, v.impl_sim = classify_outcome(run)
    TOK = {}
    def tok(x): return TOK.setdefault(x, len(TOK) + 1)
    if run.world is not None:
        start_order = list(run.world.sims)
    else:
        start_order = [f'S{k}' for k in range(case['n'])]
    v.convex = convex(case)
    if not v.convex and run.world is not None and run.build_error is None:
        tables_from = 'impl'     # the ancestors table is not unique for such scenarios (order of set.pop()); follow the implementation
    if tables_from == 'model' or run.world is None:
        L, idx = scenario_lines(case, lazy, cache, tok, start_order)
        v.static_lines = L
        for l in L:
            r = model.ask(l)
            if r != 'ok': raise RuntimeError(f'driver refused line {l!r}: {r}')
        r = model.ask('B_GO')
        v.certified = ' certified' in r
        v.flat_certified = ' flat' in r
        v.uniform_certified = ' uniform' in r
        v.ibu = ' ibu' in r
        v.bound = ' bound' in r
        v.pull = ' pull' in r
        v.push = ' push' in r
        if r.startswith('ok'):
            if v.convex and 'roworder_mismatch_anc' in r:
                # the regenerated cache_triggering_ancestors, run on the trigger table in normal form (one row per simulator, in
                # start order - the hypothesis of its tie), and the model's closure on the table as the model builds it disagree
                v.disc.append(dict(kind='tables_anc', at=-1, detail='the regenerated ancestors closure on the normal-form table differs (as a map) from the model closure on the model-built table'))
            if v.convex and not v.certified:
                v.disc.append(dict(kind='uncertified', at=-1, detail='the static tables of this convex scenario do not pass check_static: the premise static_ok of the scheduler theorems is not established'))
            r = 'ok'
        v.model_build = r
        impl_build = 'ok'
        if run.build_error is not None:
            impl_build = 'scenario_error' if type(run.build_error).__name__ == 'ScenarioError' else 'crash:' + type(run.build_error).__name__
        if r.split()[0] != impl_build.split(':')[0] and not (r in ('incomparable',) and v.impl_kind == 'internal:assert'):
            if not (r == 'ok' and impl_build == 'ok'):
                v.disc.append(dict(kind='tables', at=-1, detail=f'building the scenario: model says {r}, implementation {impl_build} ({str(run.build_error)[:80]})'))
        if r != 'ok' or run.world is None or run.build_error is not None:
            return v
        if v.impl_kind == 'scenario':
            return v        # rejected by the cycle check before any table of the run exists (C06 covers this)
        if case['until'] > 0 and all(t < case['until'] for _, t in case.get('init', [])) and not v.ibu:
            v.disc.append(dict(kind='uncertified', at=-1, detail='every initial step lies before until, but init_before_untilb rejects the model-built tables: '
                               'the premise of C02_queued_steps_are_executed is not established'))
        if v.certified and v.convex and not v.bound:
            v.disc.append(dict(kind='uncertified', at=-1, detail='check_bound rejects the model-built trigger delays (a negative tier): the premise of C05_finitely_many_steps is not established'))
        one_group = len({tuple(g) for g in case['grp']}) == 1
        if (one_group and case['until'] > 0 and all(t < case['until'] for _, t in case.get('init', []))
                and v.certified and not (v.uniform_certified and (v.flat_certified or any(case['grp'])))):
            v.disc.append(dict(kind='uncertified_flat', at=-1, detail='scenario with all simulators in one group (or none), accepted by the cycle check, whose tables do not pass '
                               'check_uniform: the premise of the progress theorems (C05_progress_flat / C05_progress_one_group) is not established'))
        md = model.ask('B_DUMP'); idump = impl_dump(run, idx, tok)
        if md != idump:
            ms, is_ = set(md.split(';')), set(idump.split(';'))
            diff = sorted(ms ^ is_)[:6]
            kind = 'tables_anc' if all(x.startswith('anc') for x in (ms ^ is_)) else 'tables'
            v.disc.append(dict(kind=kind, at=-1, detail='static tables differ (model-only / implementation-only entries): ' + ' | '.join(
                ('M:' if x in ms else 'I:') + x for x in diff)))
            if lazy and any(x.startswith('succ ') for x in (ms ^ is_)):
                # the table the lazy-stepping guard reads (C10)
                v.disc.append(dict(kind='tables_succ', at=-1, detail='successors tables differ (model-only / implementation-only entries): ' + ' | '.join(
                    ('M:' if x in ms else 'I:') + x for x in sorted(ms ^ is_) if x.startswith('succ '))[:400]))
        ports = {s: {p: ATTR[p[1]] for p in sim.triggers} for s, sim in run.world.sims.items()}
    else:
        if run.build_error is not None or run.world is None:
            return v
        if v.impl_kind == 'scenario':
            return v        # rejected by the cycle check at the start of run() (C06 covers this)
        L, idx, ports = static_lines(run, case, lazy, cache, tok)
        v.static_lines = L
        for l in L:
            r = model.ask(l)
            if r != 'ok': raise RuntimeError(f'driver refused static line {l!r}: {r}')
    dead = False
    last_reply = None
    def send(line, at):
        nonlocal dead, last_reply
        v.event_lines.append(line)
        r = model.ask('S_EV ' + line)
        v.replies.append(r)
        last_reply = r
        if r == 'dead': dead = True
        return r
    nlog = len(run.log)
    for at, l in enumerate(run.log):
        if dead: break
        k = l[0]
        if k == 'START':
            r = send(f"START {idx[l[1]]}", at)
            if r.startswith('err'): v.disc.append(dict(kind='model_err:' + r.split()[1], at=at, detail=r)); break
        elif k == 'BEGIN':
            _, sid, tiers, maxadv, inputs = l
            for (meid, mgot, mbase) in mirror_diffs(inputs)[:1]:
                v.disc.append(dict(kind='mirror', at=at, detail=f'{sid}@{tiers}: entity {meid} is given {mgot}, entity e {mbase}'))
            if case.get('mirror') and sorted(k_ for k_ in inputs if is_mirror(k_)) != sorted(f'm{k_}' for k_ in range(1, case['mirror'] + 1)) and inputs.get('e'):
                v.disc.append(dict(kind='mirror', at=at, detail=f'{sid}@{tiers}: inputs for entities {sorted(inputs)} (mirror entities expected: {case["mirror"]})'))
            obs = canon_inputs(inputs, idx, tok)
            v.begins.append((at, sid, tiers, maxadv, obs))
            r = send(f"BEGIN {idx[sid]} {simlib.tm(tiers)}", at)
            if r.startswith('ok'):
                m = re.match(r'ok maxadv=(-?\d+) inputs=(.*)$', r)
                mm, minp = int(m.group(1)), m.group(2)
                if mm != maxadv:
                    v.disc.append(dict(kind='maxadv', at=at, detail=f'{sid}@{tiers}: model {mm}, implementation {maxadv}'))
                if minp != show_inp(obs):
                    v.disc.append(dict(kind='inputs', at=at, detail=f'{sid}@{tiers}: model [{minp}], implementation [{show_inp(obs)}]'))
            elif r.startswith('guards'):
                for g in r.split(' ', 1)[1].split(','):
                    kind = {'input': 'guard_input', 'lazy': 'guard_lazy', 'async': 'guard_async'}.get(g.split(':')[0], 'notwaiting')
                    v.disc.append(dict(kind=kind, at=at, detail=f'{sid} began {tiers} but the model still waits: {g}'))
                    if kind == 'guard_input':
                        # the provider reaches this simulator through a connection with async_requests: its requests
                        # during the step at t are answered from the provider's step at t (C16)
                        rev = {i_: s_ for s_, i_ in idx.items()}
                        prov = rev.get(int(g.split(':')[1]))
                        if prov is not None and any(e.get('async') and f"S{e['a']}" == prov and f"S{e['b']}" == sid for e in case['edges']):
                            v.disc.append(dict(kind='guard_input_async', at=at, detail=f'{sid} began {tiers} before its async-requests partner {prov} had passed that time'))
                break
            elif r.startswith('timemismatch'):
                v.disc.append(dict(kind='timemismatch', at=at, detail=f'{sid} began {tiers}; {r}')); break
            else:
                v.disc.append(dict(kind='model_err:' + r.split()[1], at=at, detail=f'{sid} began {tiers}; model: {r}')); break
        elif k == 'SETDATA':
            _, sid, dest, attr, tk_ = l[:5]
            w = l[5] if len(l) > 5 else 0
            r = send(f"SETDATA {idx[sid]} {w} {idx[dest] if dest in idx else 999} {ATTR[attr]} {tok(tk_)}", at)
            if r.startswith('asyncrefused'):
                if v.impl_kind != 'async':
                    v.disc.append(dict(kind='model_err:asyncrefused', at=at, detail=r))
                break
        elif k == 'GETDATA':
            _, sid, dest, attr = l
            r = send(f"GETDATA {idx[sid]} {idx[dest] if dest in idx else 999}", at)
            if r.startswith('asyncrefused'):
                if v.impl_kind != 'async':
                    v.disc.append(dict(kind='model_err:asyncrefused', at=at, detail=r + ' (get_data)'))
                break
        elif k == 'GOTDATA':
            pass
        elif k == 'STEP':
            _, sid, rep = l
            if rep is None: r = send(f"STEP {idx[sid]} N", at)
            elif isinstance(rep, int): r = send(f"STEP {idx[sid]} {int(rep)}", at)
            else: r = send(f"STEPBAD {idx[sid]}", at)
            if r.startswith('err'):
                kind, who = r.split()[1], int(r.split()[2]) if len(r.split()) > 2 else None
                expect = {'reply': 'reply', 'backwards': 'internal:backwards'}.get(kind, kind)
                if v.impl_kind != expect:
                    v.disc.append(dict(kind='model_err:' + kind, at=at, detail=f'model: {r}; implementation: {v.impl_outcome[:80]}'))
                elif expect == 'reply' and v.impl_sim != sid:
                    v.disc.append(dict(kind='outcome', at=at, detail=f'the reply of {sid} is refused by the model, the implementation error names {v.impl_sim}'))
                break
        elif k == 'DATA':
            _, sid, ot, data, has_time = l
            ps = [ATTR[a] for a in sorted(data)]
            pairs = ' '.join(f"{ATTR[a]} {0 if val is None else tok(val)}" for a, val in data.items())     # token 0: the value None
            if not isinstance(ot, int):
                break
            r = send(f"DATA {idx[sid]} {ot} {len(ps)} " + ' '.join(map(str, ps)) + ' ' + pairs, at)
            if r.startswith('err'):
                kind = r.split()[1]
                expect = {'outtime': 'outtime', 'backwards': 'internal:backwards'}.get(kind, kind)
                if v.impl_kind != expect:
                    v.disc.append(dict(kind='model_err:' + kind, at=at, detail=f'model: {r}; implementation: {v.impl_outcome[:80]}'))
                elif expect == 'outtime' and v.impl_sim != sid:
                    v.disc.append(dict(kind='outcome', at=at, detail=f'the output time of {sid} is refused by the model, the implementation error names {v.impl_sim}'))
                break
        elif k == 'QUIESCE':
            r = send("QUIESCE", at)
            if r.startswith('enabled'):
                v.disc.append(dict(kind='quiesce_enabled', at=at, detail=f'event loop idle but the model can begin a step of simulator(s) {r.split()[1]}'))
            snap = l[1] if len(l) > 1 else None
            if snap and not any(d['kind'] == 'state' for d in v.disc):
                # state correspondence at quiescent points: progress and the queue of pending steps of every simulator
                for sid, (prog, nexts) in snap.items():
                    if sid not in idx: continue
                    m = model.ask(f"S_EV STATE {idx[sid]}")
                    mine = ':'.join(map(str, prog)) + ';' + ','.join(':'.join(map(str, t)) for t in nexts)
                    if m != mine:
                        v.disc.append(dict(kind='state', at=at, detail=f'{sid}: progress;queue at a quiescent point: model [{m}], implementation [{mine}]'))
                        break
        elif k == 'DEADLOCK':
            r = send("QUIESCE", at)
            if r.startswith('enabled'):
                v.disc.append(dict(kind='quiesce_enabled', at=at, detail=f'implementation deadlocked; model can begin {r.split()[1]}'))
    v.events = len(v.event_lines)
    if not dead and not any(d['kind'].startswith(('guard', 'time', 'notwaiting', 'model_err')) for d in v.disc):
        if v.impl_kind == 'ok':
            r = send("QUIESCE", nlog)
            if r.startswith('enabled'):
                v.disc.append(dict(kind='quiesce_enabled', at=nlog, detail=f'run() returned but the model can begin {r.split()[1]}'))
            r = send("END", nlog)
            v.model_final = r
            if r != 'alldone=true':
                v.disc.append(dict(kind='notdone', at=nlog, detail='run() returned but not every simulator is Done in the model'))
        elif v.impl_kind == 'loop':
            r = send(f"LOOPFAIL {idx[v.impl_sim]}", nlog)
            if not r.startswith('ok'):
                v.disc.append(dict(kind='impl_err:loop', at=nlog, detail=f'implementation stopped {v.impl_sim} for too many sub-steps; model: {r}'))
        elif v.impl_kind in ('reply', 'outtime', 'internal:backwards', 'async'):
            if not (last_reply or '').startswith(('err', 'asyncrefused')):
                v.disc.append(dict(kind='impl_err:' + v.impl_kind, at=nlog, detail=f'implementation failed ({v.impl_outcome[:100]}) where the model accepts'))
        elif v.impl_kind == 'deadlock':
            v.disc.append(dict(kind='impl_err:deadlock', at=nlog, detail='implementation deadlocked (event loop idle, no gate, run() unfinished)'))
        else:
            v.disc.append(dict(kind='impl_err:' + v.impl_kind, at=nlog, detail=v.impl_outcome[:160]))
    elif v.impl_kind not in ('ok',) and not dead:
        pass
    return v
