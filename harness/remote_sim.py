"""Remote (subprocess) variant of the scripted simulator for C04/C14: same behaviour scripts as harness.simlib.GSim,
no gates; latency comes from seeded sleeps; every step's (time, inputs) is appended to a log file."""
import json, os, random, sys, time, copy
import mosaik_api_v3


class RSim(mosaik_api_v3.Simulator):
    def __init__(self):
        super().__init__({'api_version': '3.0', 'type': 'time-based',
                          'models': {'M': {'public': True, 'params': [], 'attrs': ['i', 'ti', 't2', 'po', 'eo', 'e2']}}})

    def init(self, sid, time_resolution=1.0, beh=None, log=None, seed=0, fault=None):
        self.sid = sid; self.beh = beh or {}; self.logf = log; self.rng = random.Random(seed)
        self.fault = fault          # [request kind, index, fault kind]
        self.nreq = {'step': 0, 'get_data': 0}
        self.meta = copy.deepcopy(self.meta)
        t = self.beh.get('type', 'time-based'); self.meta['type'] = t
        m = self.meta['models']['M']
        if t == 'hybrid':
            m['trigger'] = ['ti', 't2']; m['non-persistent'] = ['eo', 'e2']; m['attrs'] = ['i', 'ti', 't2', 'po', 'eo', 'e2']
        elif t == 'event-based': m['attrs'] = ['ti', 't2', 'eo', 'e2']
        else: m['attrs'] = ['i', 'po']
        self.count = {}
        return self.meta

    def create(self, num, model):
        return [{'eid': 'e', 'type': model}]

    def _fault(self, kind):
        f = self.fault
        if f and f[0] == kind and self.nreq[kind] == f[1]:
            if f[2] == 'exit': os._exit(3)
            if f[2] == 'close':
                # the connection to mosaik closes while the process keeps running (a hung simulator that lost its socket)
                os.closerange(3, 64); time.sleep(8); os._exit(4)
            if f[2] == 'raise': raise RuntimeError('injected fault')
            if f[2].startswith('badreply'):
                self.nreq[kind] += 1; return True        # (the simulator stays alive; its reply is what is wrong)
        self.nreq[kind] += 1
        return False

    def setup_done(self):
        f = self.fault
        if f and f[0] == 'setup_done':
            if f[2] == 'exit': os._exit(3)
            if f[2] == 'raise': raise RuntimeError('injected fault')

    def step(self, time_, inputs, max_advance):
        if self._fault('step'): return time_          # a next step that is not later than the current one
        time.sleep(self.rng.choice([0, 0, 0.002, 0.005]))
        self.time = time_
        k = self.count.get(time_, 0); self.count[time_] = k + 1; self.k = k
        if self.logf:
            with open(self.logf, 'a') as f: f.write(json.dumps([self.sid, time_, inputs], sort_keys=True) + '\n')
        b = self.beh
        if b.get('type', 'time-based') == 'time-based':
            return time_ + b.get('step_size', 1)
        ss = b.get('self_steps', {})
        return ss.get(f'{time_},{k}', ss.get(str(time_)) if k == 0 else None)

    def get_data(self, outputs):
        self._fault('get_data')
        time.sleep(self.rng.choice([0, 0, 0.002]))
        spec = self.beh.get('outputs', {}).get(f'{self.time},{self.k}', self.beh.get('default_output'))
        if spec is None: return {}
        ot, attrs = spec
        d = {'e': {a: f'{self.sid}@{self.time}.{self.k}' for a in attrs if a in outputs.get('e', [])}}
        if ot is not None: d['time'] = ot
        return d


class RSimAsk(RSim):
    """the same simulator with a generator-style step that, at the step given by fault = ['step', j, 'askbad:<sid>'], asks
    mosaik for data of the simulator <sid> (an asynchronous get_data request) before it goes on"""
    def step(self, time_, inputs, max_advance):
        f = self.fault
        if f and f[0] == 'step' and self.nreq['step'] == f[1] and str(f[2]).startswith('askbad'):
            self.nreq['step'] += 1
            src = str(f[2]).split(':')[1]
            yield self.mosaik.get_data({f'{src}.e': ['po']})
            self.fault = None
        return super().step(time_, inputs, max_advance)


if __name__ == '__main__':
    sys.exit(mosaik_api_v3.start_simulation(RSimAsk() if os.environ.get('VERIF_RSIM_ASK') else RSim()))
