"""Shared machinery of the checks: build (translator -> coq -> extraction -> OCaml driver), the model
process, proof-obligation bookkeeping, verdict logic, evidence and replay files.  See DESIGN.md 2.4-2.6."""
from __future__ import annotations
import fcntl, hashlib, json, os, re, subprocess, sys, time

VERIF = os.path.dirname(os.path.dirname(os.path.abspath(__file__)))
REPO = os.environ.get('VERIF_REPO', '/repo')
COQ = os.path.join(VERIF, 'coq')
BUILD = os.path.join(VERIF, 'build')
OCAML = os.path.join(VERIF, 'ocaml')
EVIDENCE = os.environ.get('VERIF_EVIDENCE_DIR') or os.path.join(VERIF, 'evidence')   # dev scripts redirect it so that runs against seeded changes never touch the committed evidence
REPLAYS = os.path.join(VERIF, 'replays')
CORPUS = os.path.join(VERIF, 'corpus')
PY = '/venv/bin/python'
NCPU = 16

FORBIDDEN = re.compile(r'\b(Admitted|admit|Axiom|Axioms|Parameter|Parameters|Conjecture|Conjectures|Hypothesis|Hypotheses|Variable|Variables)\b|Unset\s+Guard|bypass_check|Admit\s+Obligations|-type-in-type|-impredicative-set|Unset\s+Positivity|Unset\s+Universe')


def sh(cmd, timeout=600, cwd=None, env=None, inp=None):
    try:
        p = subprocess.run(cmd, shell=isinstance(cmd, str), cwd=cwd, env=env, input=inp, capture_output=True,
                           text=True, timeout=timeout)
        return p.returncode, p.stdout, p.stderr
    except subprocess.TimeoutExpired as e:
        return 124, (e.stdout or b'').decode() if isinstance(e.stdout, bytes) else (e.stdout or ''), 'TIMEOUT'


class BuildInfo:
    def __init__(self):
        self.translator_ok = False
        self.translator2_ok = False
        self.gen_failed = set()
        self.translator_msg = ''
        self.make_rc = None
        self.make_log = ''
        self.failed_files = []      # .v files whose compilation failed
        self.driver_ok = False
        self.driver_msg = ''
        self.wall = 0.0

    def vo_ok(self, rel):
        """True iff coq/<rel>.vo exists and is at least as new as its source (make -k leaves stale/missing .vo on failure)."""
        v = os.path.join(COQ, rel + '.v'); vo = os.path.join(COQ, rel + '.vo')
        return os.path.exists(vo) and os.path.getmtime(vo) >= os.path.getmtime(v) and (rel + '.v') not in self.failed_files \
            and not any(f in self.failed_deps(rel) for f in self.failed_files)

    def failed_deps(self, rel):
        return self._deps.get(rel + '.v', set()) if hasattr(self, '_deps') else set()


def _parse_deps():
    """transitive .v dependencies from coqdep's .Makefile.d"""
    d = {}
    p = os.path.join(COQ, '.Makefile.d')
    if not os.path.exists(p):
        return d
    direct = {}
    for line in open(p):
        if ':' not in line: continue
        lhs, rhs = line.split(':', 1)
        tg = [x for x in lhs.split() if x.endswith('.vo')]
        if not tg: continue
        src = tg[0][:-1]
        direct[src] = {x[:-1] for x in rhs.split() if x.endswith('.vo') and not x.startswith('/')}
    def trans(x, seen):
        for y in direct.get(x, ()):
            if y not in seen:
                seen.add(y); trans(y, seen)
        return seen
    for k in direct:
        d[k] = trans(k, set())
    return d


def build(quiet=True) -> BuildInfo:
    """Regenerate Gen/*.v from REPO, make the whole development (-k), extract and build the OCaml driver.
    Serialised with a lock so that concurrent checks share one build."""
    os.makedirs(BUILD, exist_ok=True)
    info = BuildInfo()
    t0 = time.time()
    with open(os.path.join(BUILD, '.lock'), 'w') as lk:
        fcntl.flock(lk, fcntl.LOCK_EX)
        rc, out, err = sh([PY, os.path.join(VERIF, 'harness', 'py2coq.py'), REPO, os.path.join(COQ, 'Gen')], timeout=60)
        info.translator_ok = rc == 0
        info.translator_msg = (out + err).strip()
        info.gen_failed = set() if rc == 0 else {'Gen/TieredTime.v', 'Gen/UpdateMin.v'}
        # second translator: scenario.connect_interval -> Gen/ConnectInterval.v (tie: Static/ConnTie.v)
        rc2, out2, err2 = sh([PY, os.path.join(VERIF, 'harness', 'py2coq_conn.py'), REPO, os.path.join(COQ, 'Gen')], timeout=60)
        info.translator2_ok = rc2 == 0
        if rc2 != 0:
            info.gen_failed.add('Gen/ConnectInterval.v')
            info.translator_msg += '\n' + (out2 + err2).strip()
        # third translator: in_or_out_set.py -> Gen/InOrOutSet.v (tie: Static/SetsTie.v)
        rc3, out3, err3 = sh([PY, os.path.join(VERIF, 'harness', 'py2coq_sets.py'), REPO, os.path.join(COQ, 'Gen')], timeout=60)
        info.translator3_ok = rc3 == 0
        if rc3 != 0:
            info.gen_failed.add('Gen/InOrOutSet.v')
            info.translator_msg += '\n' + (out3 + err3).strip()
        # fourth translator: the dict-merging helpers of internal_util.py -> Gen/InternalUtil.v (tie: Sched/MergeTie.v)
        rc4, out4, err4 = sh([PY, os.path.join(VERIF, 'harness', 'py2coq_util.py'), REPO, os.path.join(COQ, 'Gen')], timeout=60)
        info.translator4_ok = rc4 == 0
        if rc4 != 0:
            info.gen_failed.add('Gen/InternalUtil.v')
            info.translator_msg += '\n' + (out4 + err4).strip()
        # fifth translator: the two progress formulas of scheduler.py -> Gen/SchedulerFns.v (tie: Sched/SchedTie.v)
        rc5, out5, err5 = sh([PY, os.path.join(VERIF, 'harness', 'py2coq_sched.py'), REPO, os.path.join(COQ, 'Gen')], timeout=60)
        info.translator5_ok = rc5 == 0
        if rc5 != 0:
            info.gen_failed.add('Gen/SchedulerFns.v')
            info.translator_msg += '\n' + (out5 + err5).strip()
        # sixth translator: scenario.parse_attrs -> Gen/ParseAttrs.v (tie: Static/AttrsTie.v)
        rc6, out6, err6 = sh([PY, os.path.join(VERIF, 'harness', 'py2coq_attrs.py'), REPO, os.path.join(COQ, 'Gen')], timeout=60)
        info.translator6_ok = rc6 == 0
        if rc6 != 0:
            info.gen_failed.add('Gen/ParseAttrs.v')
            info.translator_msg += '\n' + (out6 + err6).strip()
        # seventh translator: World.connect_one -> Gen/ConnectOne.v (tie: Static/ConnOneTie.v)
        rc7, out7, err7 = sh([PY, os.path.join(VERIF, 'harness', 'py2coq_connone.py'), REPO, os.path.join(COQ, 'Gen')], timeout=60)
        info.translator7_ok = rc7 == 0
        if rc7 != 0:
            info.gen_failed.add('Gen/ConnectOne.v')
            info.translator_msg += '\n' + (out7 + err7).strip()
        # eighth translator: adapters.init_and_get_adapter, the adapters' send, LocalProxy.init -> Gen/AdaptFns.v (tie: Ext/AdaptTie.v)
        rc8, out8, err8 = sh([PY, os.path.join(VERIF, 'harness', 'py2coq_adapt.py'), REPO, os.path.join(COQ, 'Gen')], timeout=60)
        if rc8 != 0:
            info.gen_failed.add('Gen/AdaptFns.v')
            info.translator_msg += '\n' + (out8 + err8).strip()
        # ninth translator: the bulk connection helpers of mosaik/util.py -> Gen/BulkFns.v (tie: Ext/BulkTie.v)
        rc9, out9, err9 = sh([PY, os.path.join(VERIF, 'harness', 'py2coq_bulk.py'), REPO, os.path.join(COQ, 'Gen')], timeout=60)
        if rc9 != 0:
            info.gen_failed.add('Gen/BulkFns.v')
            info.translator_msg += '\n' + (out9 + err9).strip()
        # tenth translator: scheduler.get_input_data -> Gen/InputData.v (tie: Sched/DataTie.v)
        rc10, out10, err10 = sh([PY, os.path.join(VERIF, 'harness', 'py2coq_data.py'), REPO, os.path.join(COQ, 'Gen')], timeout=60)
        if rc10 != 0:
            info.gen_failed.add('Gen/InputData.v')
            info.translator_msg += '\n' + (out10 + err10).strip()
        # eleventh translator: World.ensure_no_dataflow_cycles -> Gen/CycleFns.v (tie: Static/CycleTie.v)
        rc11, out11, err11 = sh([PY, os.path.join(VERIF, 'harness', 'py2coq_cycle.py'), REPO, os.path.join(COQ, 'Gen')], timeout=60)
        if rc11 != 0:
            info.gen_failed.add('Gen/CycleFns.v')
            info.translator_msg += '\n' + (out11 + err11).strip()
        # twelfth translator: World.cache_triggering_ancestors -> Gen/AncFns.v (tie: Static/AncTie.v)
        rc12, out12, err12 = sh([PY, os.path.join(VERIF, 'harness', 'py2coq_anc.py'), REPO, os.path.join(COQ, 'Gen')], timeout=60)
        if rc12 != 0:
            info.gen_failed.add('Gen/AncFns.v')
            info.translator_msg += '\n' + (out12 + err12).strip()
        # thirteenth translator: World.group -> Gen/GroupFns.v (theorems: Static/GroupTie.v)
        rc13, out13, err13 = sh([PY, os.path.join(VERIF, 'harness', 'py2coq_group.py'), REPO, os.path.join(COQ, 'Gen')], timeout=60)
        if rc13 != 0:
            info.gen_failed.add('Gen/GroupFns.v')
            info.translator_msg += '\n' + (out13 + err13).strip()
        if not os.path.exists(os.path.join(COQ, 'Makefile')) or \
                os.path.getmtime(os.path.join(COQ, 'Makefile')) < os.path.getmtime(os.path.join(COQ, '_CoqProject')):
            sh('coq_makefile -f _CoqProject -o Makefile', cwd=COQ, timeout=60)
        model_ml = os.path.join(BUILD, 'model.ml')
        before = os.path.getmtime(model_ml) if os.path.exists(model_ml) else 0
        rc, out, err = sh(f'timeout 1500 make -k -j{NCPU} 2>&1', cwd=COQ, timeout=1600)
        info.make_rc = rc
        info.make_log = out[-20000:]
        info.failed_files = sorted(set(re.findall(r'\*\*\* \[Makefile[^\]]*: ([\w/]+)\.vo\]', out)))
        info.failed_files = [f + '.v' for f in info.failed_files]
        info._deps = _parse_deps()
        # OCaml driver (rebuilt when the extracted model or the driver sources changed)
        drv = os.path.join(BUILD, 'driver')
        srcs = [os.path.join(OCAML, f) for f in sorted(os.listdir(OCAML)) if f.endswith('.ml')]
        extract_ok = info.vo_ok('Extract/Extract') and os.path.exists(model_ml)
        if not extract_ok:
            info.driver_ok = False
            info.driver_msg = 'extraction did not build: ' + ', '.join(info.failed_files)
            if os.path.exists(drv): os.remove(drv)
        else:
            newest = max([os.path.getmtime(model_ml)] + [os.path.getmtime(s) for s in srcs])
            if not os.path.exists(drv) or os.path.getmtime(drv) < newest:
                for s in srcs:
                    sh(['cp', s, BUILD])
                order = ['util.ml', 'static_cmds.ml', 'sched_cmds.ml', 'build_cmds.ml', 'attrs_cmds.ml']
                names = [f for f in order if os.path.exists(os.path.join(OCAML, f))] + [os.path.basename(s) for s in srcs if os.path.basename(s) not in order + ['driver.ml']] + ['driver.ml']
                rc, out, err = sh('ocamlfind ocamlopt -w -a -package str,unix -linkpkg model.mli model.ml ' + ' '.join(names) + ' -o driver',
                                  cwd=BUILD, timeout=300)
                info.driver_ok = rc == 0
                info.driver_msg = (out + err)[-3000:]
                if rc != 0 and os.path.exists(drv): os.remove(drv)
            else:
                info.driver_ok = True
    info.wall = time.time() - t0
    return info


class Model:
    """The extracted model behind the line protocol."""
    def __init__(self):
        self.p = subprocess.Popen([os.path.join(BUILD, 'driver')], stdin=subprocess.PIPE, stdout=subprocess.PIPE,
                                  text=True, bufsize=1)
    def ask(self, line: str) -> str:
        self.p.stdin.write(line + '\n'); self.p.stdin.flush()
        r = self.p.stdout.readline()
        if not r:
            raise RuntimeError('model driver died on: ' + line[:200])
        return r.rstrip('\n')
    def ask_many(self, lines):
        """batch: write all, read all (driver answers one line per request)"""
        out = []
        CH = 2000
        for k in range(0, len(lines), CH):
            chunk = lines[k:k + CH]
            self.p.stdin.write('\n'.join(chunk) + '\n'); self.p.stdin.flush()
            for _ in chunk:
                r = self.p.stdout.readline()
                if not r: raise RuntimeError('model driver died')
                out.append(r.rstrip('\n'))
        return out
    def close(self):
        try:
            self.p.stdin.close(); self.p.wait(timeout=5)
        except Exception:
            self.p.kill()


def batch_model(lines):
    """one-shot batch through a fresh driver process (fast path for big pure sweeps)"""
    rc, out, err = sh([os.path.join(BUILD, 'driver')], inp='\n'.join(lines) + '\n', timeout=1200)
    res = out.split('\n')
    if res and res[-1] == '': res.pop()
    if len(res) != len(lines):
        raise RuntimeError(f'model driver returned {len(res)} replies for {len(lines)} requests: {err[-500:]}')
    return res


# ---------------------------------------------------------------------------------------------
# proof obligations

def theorem_names(rel):
    src = open(os.path.join(COQ, rel + '.v')).read()
    return re.findall(r'^(?:Theorem|Example)\s+(\w+)', src, flags=re.M)


def check_props_file(pid, info: BuildInfo):
    """Compile Props/<pid>.v on its own (cheap: it contains only `exact`s) to get Print Assumptions verbatim.
    Returns (obligations:[{name, ok, assumptions}], log)."""
    rel = f'Props/{pid}'
    names = theorem_names(rel)
    translator_ok = not (info.gen_failed & set(info._deps.get(rel + '.v', set())))
    rc, out, err = sh(f'timeout 600 coqc -Q . MV -w -notation-overridden {rel}.v', cwd=COQ, timeout=700)
    ok = rc == 0 and translator_ok
    # split Print Assumptions output per theorem (in file order of the Print commands)
    src = open(os.path.join(COQ, rel + '.v')).read()
    printed = re.findall(r'^Print Assumptions (\w+)\.', src, flags=re.M)
    blocks = re.split(r'(?=^Closed under the global context|^Axioms:)', out, flags=re.M)
    blocks = [b.strip() for b in blocks if b.strip().startswith(('Closed under', 'Axioms:'))]
    ass = {n: (blocks[i] if i < len(blocks) else '?') for i, n in enumerate(printed)}
    obl = [{'name': n, 'ok': ok, 'assumptions': ass.get(n, 'not printed (Example / refutation)')} for n in names]
    log = (out + err)[-4000:]
    if not translator_ok:
        log = 'TRANSLATOR: ' + info.translator_msg + '\n' + log
    broken = []
    if not ok:
        broken = [f for f in info.failed_files if f in info._deps.get(rel + '.v', set()) or f == rel + '.v']
        if not translator_ok: broken.insert(0, 'harness/py2coq*.py (translator rejected the source)')
    return obl, log, broken


def hygiene():
    """no Admitted/admit/Axiom/... anywhere in the development; returns list of offending lines"""
    bad = []
    for root, _, files in os.walk(COQ):
        for f in files:
            if not f.endswith('.v'): continue
            p = os.path.join(root, f)
            txt = open(p).read()
            # strip comments
            txt2 = re.sub(r'\(\*.*?\*\)', lambda m: ' ' * len(m.group(0)), txt, flags=re.S)
            in_section = 0
            for ln, line in enumerate(txt2.split('\n'), 1):
                if re.match(r'\s*Section\b', line): in_section += 1
                if re.match(r'\s*End\b', line) and in_section: in_section -= 1
                m = FORBIDDEN.search(line)
                if m:
                    w = m.group(0)
                    if w.split()[0] in ('Hypothesis', 'Hypotheses', 'Variable', 'Variables') and in_section:
                        continue
                    bad.append(f'{os.path.relpath(p, COQ)}:{ln}: {line.strip()[:100]}')
    return bad


# ---------------------------------------------------------------------------------------------
# known findings, replays, evidence, verdict

def known_findings(pid):
    p = os.path.join(VERIF, 'known_findings.json')
    if not os.path.exists(p): return []
    return [f for f in json.load(open(p))['findings'] if pid in f['property'].split(',')]


def write_replay(pid, payload) -> str:
    os.makedirs(REPLAYS, exist_ok=True)
    payload = dict(payload); payload['property'] = pid
    blob = json.dumps(payload, sort_keys=True, indent=1, default=str)
    h = hashlib.sha1(blob.encode()).hexdigest()[:12]
    path = os.path.join(REPLAYS, f'{pid}-{h}.json')
    open(path, 'w').write(blob)
    return path


class Outcome:
    """collects everything a check found; decides the exit status"""
    def __init__(self, pid, tier, seed):
        self.pid, self.tier, self.seed = pid, tier, seed
        self.t0 = time.time()
        self.obligations = []         # {name, ok, assumptions}
        self.broken = []              # names of theorems / tie lemmas / correspondence cases that no longer check
        self.violations = []          # replay payloads with a concrete failing input
        self.known_hits = []          # (finding, what)
        self.coverage = {}
        self.assumptions = []
        self.trusted_base = []
        self.checker_cmd = ''
        self.notes = []

    def add_obligation(self, name, ok, assumptions=''):
        self.obligations.append({'name': name, 'ok': bool(ok), 'assumptions': assumptions})
        if not ok: self.broken.append(name)

    def finish(self):
        lines = []
        rc = 0
        for f, what in self.known_hits:
            lines.append(f"KNOWN-FINDING: property={self.pid} {f['id']}: {what}")
        for v in self.violations:
            path = write_replay(self.pid, v)
            lines.append(f'VIOLATION property={self.pid} replay={path}')
            rc = 1
        if self.broken and not self.violations:
            path = write_replay(self.pid, {'kind': 'obligation', 'broken': self.broken, 'notes': self.notes,
                                           'explanation': 'these proof obligations / correspondence cases no longer check against the '
                                                          'current /repo; the search found no concrete failing input'})
            lines.append(f'VIOLATION property={self.pid} replay={path} no-failing-input-found')
            rc = 1
        nobl = len(self.obligations)
        ndis = sum(1 for o in self.obligations if o['ok'])
        cov = dict(self.coverage)
        cov.setdefault('evaluations', 0); cov.setdefault('distinct_nontrivial', 0)
        cov.setdefault('rule', ''); cov.setdefault('samples', [])
        cov.update({'obligations': nobl, 'discharged': ndis, 'checker_cmd': self.checker_cmd,
                    'trusted_base': self.trusted_base,
                    'obligation_list': self.obligations, 'broken': self.broken,
                    'known_findings_reconfirmed': [f"{f['id']}: {w}" for f, w in self.known_hits]})
        ev = {'property_id': self.pid, 'tier': self.tier, 'seed': self.seed, 'level': 'proof', 'coverage': cov,
              'assumptions': self.assumptions, 'wall_s': round(time.time() - self.t0, 2),
              'violations': len(self.violations) + (1 if self.broken and not self.violations else 0)}
        os.makedirs(EVIDENCE, exist_ok=True)
        json.dump(ev, open(os.path.join(EVIDENCE, f'{self.pid}.json'), 'w'), indent=1, default=str)
        for l in lines: print(l)
        print(f'[{self.pid}] tier={self.tier} seed={self.seed} obligations={ndis}/{nobl} '
              f'evaluations={cov["evaluations"]} violations={ev["violations"]} wall={ev["wall_s"]}s')
        return rc


COMMON_TRUSTED = [
    'Coq 8.16.1 kernel (coqc); vm_compute only inside witness lemmas; no native_compute',
    'harness/py2coq.py, py2coq_conn.py, py2coq_sets.py, py2coq_util.py, py2coq_sched.py, py2coq_attrs.py, py2coq_connone.py, py2coq_adapt.py, py2coq_bulk.py, py2coq_data.py, py2coq_cycle.py, py2coq_anc.py, py2coq_group.py (Python-ast -> Coq translators, fail-closed) and coq/Prelude/Py.v, coq/Prelude/PyG.v, coq/Sched/GenView.v (meaning given to Python tuples, slices, zip, total_ordering, list item assignment; SimGroup objects as ids of a group table; SimRunner objects as views, next_steps[0] of a heapq heap as the minimum, min() of a list) and the other hand-written preludes of generated files: Static/GenConn.v, Ext/GenAdapt.v, Ext/GenBulk.v (random.shuffle / randint as an oracle, float("inf") as None), Sched/GenData.v (TimedInputBuffer, compared literally), Static/GenCycle.v and Static/GenAnc.v (the while loops around set.pop(), oldest element first); the entity level of mosaik\'s input dicts is dropped by py2coq_data.py (one entity per simulator)',
    'extraction: ExtrOcamlBasic only (Extract Inductive bool, option, unit, list, prod, sumbool, sumor; Extract Inlined Constant andb, orb); Z/nat/positive extracted as Coq datatypes; extracted: the hand-written models, the generated tiered_time functions and the two generated closures (cycle_check_gen, ancestors_gen); OCaml 4.13.1; ocaml/util.ml + ocaml/driver.ml (I/O glue)',
    'the correspondence harness (harness/*.py) and CPython 3.12 asyncio',
]
