"""The properties as decidable predicates on (scenario, recorded trace of the real scheduler).
Delays come from the *model* (connect_interval via the extracted driver), never from the implementation's tables;
tuple arithmetic is done here (not with mosaik.tiered_time)."""
from __future__ import annotations
import collections, re
from . import simlib, tracelib


def act(t, d):
    pre, cut, tiers = d
    return tuple(x + y for x, y in zip(t[:cut], tiers[:cut])) + tuple(tiers[cut:])


def parse_iv(s):
    w = list(map(int, s.split()))
    return (w[0], w[1], tuple(w[3:3 + w[2]]))


class Ctx:
    """per-case facts derived from the scenario through the model"""
    def __init__(self, case, model, cache=True):
        self.case = case
        parents, gids = simlib.gtab_of(case['grp'])
        gt = f"{len(parents)} {' '.join(map(str, parents))}"
        self.depth = {}
        for k in range(case['n']):
            self.depth[f'S{k}'] = int(model.ask(f"depth {gt} {gids[tuple(case['grp'][k])]}"))
        self.edges = []
        for e in case['edges']:
            f = tracelib.attr_facts(case['types'], e)
            shift = e.get('shift', 1) if e['kind'] == 'ts' else 0
            sg, dg = gids[tuple(case['grp'][e['a']])], gids[tuple(case['grp'][e['b']])]
            r = model.ask(f"connect_interval {gt} {sg} {dg} {shift} {int(e['kind'] == 'w')}")
            p = model.ask(f"connect_interval {gt} {sg} {dg} 0 0")
            if not r.startswith('ok') or not p.startswith('ok'):
                continue
            self.edges.append(dict(a=f"S{e['a']}", b=f"S{e['b']}", sa=e['sa'], da=e['da'], kind=e['kind'], shift=shift,
                                   delay=parse_iv(r[3:]), plain=parse_iv(p[3:]), trigger=f[3], persistent=f[4],
                                   init=bool(e.get('init')), asyn=bool(e.get('async')),
                                   pulled=bool(cache and f[4])))
        self.outreq = {e['a'] for e in self.edges}
        self.until = case['until']
        self.types = {f'S{k}': case['types'][k] for k in range(case['n'])}
        self.init = {f'S{i}': t for i, t in case.get('init', [])}

    def world_time(self, sid, t):
        return (t,) + (0,) * (self.depth[sid] - 1)


def index_trace(ctx, log):
    """begins: (idx, sid, tiers, maxadv, inputs); completion index of every step; per-step replies"""
    begins, cur, done, replies, datas = [], {}, {}, {}, {}
    for n, l in enumerate(log):
        if l[0] == 'BEGIN':
            cur[l[1]] = (l[1], tuple(l[2])); begins.append((n, l[1], tuple(l[2]), l[3], l[4]))
        elif l[0] == 'STEP':
            replies[cur[l[1]]] = l[2]
            if l[1] not in ctx.outreq: done[cur[l[1]]] = n
        elif l[0] == 'DATA':
            done[cur[l[1]]] = n
            datas[cur[l[1]]] = (l[2], dict(l[3]))
    return begins, done, replies, datas


def demands_of(ctx, log):
    """(sid, tiers) -> (first index demanded, [source steps or 'ROOT'])"""
    dem = {}
    def add(key, n, src):
        if key not in dem: dem[key] = [n, []]
        dem[key][1].append(src)
    for sid in ctx.types:
        if sid in ctx.init:
            if ctx.init[sid] < ctx.until: add((sid, ctx.world_time(sid, ctx.init[sid])), -1, 'ROOT')
        elif ctx.types[sid] != 'event-based':
            add((sid, ctx.world_time(sid, 0)), -1, 'ROOT')
    cur = {}
    for n, l in enumerate(log):
        if l[0] == 'BEGIN':
            cur[l[1]] = (l[1], tuple(l[2]))
        elif l[0] == 'STEP' and isinstance(l[2], int) and not isinstance(l[2], bool):
            if l[2] < ctx.until: add((l[1], ctx.world_time(l[1], l[2])), n, cur[l[1]])
        elif l[0] == 'DATA':
            sid, ot, data = l[1], l[2], l[3]
            c = cur[sid]
            ott = c[1] if ot == c[1][0] else ctx.world_time(sid, ot)
            for e in ctx.edges:
                if e['a'] == sid and e['trigger'] and e['sa'] in data:
                    tt = act(ott, e['delay'])
                    if tt[0] < ctx.until: add((e['b'], tt), n, c)
    return dem


def P_C01(ctx, log, **kw):
    begins, done, _, _ = index_trace(ctx, log)
    out = []
    bysim = collections.defaultdict(list)
    for b in begins: bysim[b[1]].append(b)
    # minimal delay per ordered pair is what matters, but the property speaks about every connection
    for (p, j, t, _, _) in begins:
        for e in ctx.edges:
            if e['b'] != j: continue
            d = e['plain'] if False else e['delay']
            for (q, k, s, _, _) in bysim[e['a']]:
                due = act(s, d) <= t
                if q > p and due:
                    out.append(f"{j} began {t} at event {p}; its input provider {k} was stepped later (event {q}) at {s}, "
                               f"whose output over the {e['kind']} connection {e['sa']}->{e['da']} is due at {act(s, d)} <= {t}")
                elif q < p and due and done.get((k, s), 10 ** 9) > p:
                    out.append(f"{j} began {t} at event {p} while {k}'s step {s} (due {act(s, d)}) had not finished (step+get_data)")
            if e['asyn']:
                pass
    # the same statement in terms of demanded steps: a step of a provider that had already been demanded (queued) when the
    # consumer began, and whose output is due at or before the consumer's step, must have been finished by then - whether or
    # not the run later gets far enough to execute it
    dem = demands_of(ctx, log)
    for (p, j, t, _, _) in begins:
        for e in ctx.edges:
            if e['b'] != j: continue
            for (k, s), (dn, _) in dem.items():
                if k != e['a']: continue
                if dn >= p:
                    # demanded only after the consumer began: then it must not be due at or before the consumer's step
                    if act(s, e['delay']) <= t and not any(b[1] == k and b[2] == s and b[0] < p for b in begins):
                        out.append(f"{j} began {t} at event {p}; afterwards (event {dn}) a step {s} of its input provider {k} was demanded whose output over the "
                                   f"{e['kind']} connection {e['sa']}->{e['da']} is due at {act(s, e['delay'])} <= {t}")
                    continue
                if act(s, e['delay']) <= t and done.get((k, s), 10 ** 9) > p:
                    out.append(f"{j} began {t} at event {p} while the step {s} of its input provider {k}, demanded at event {dn} and due at "
                               f"{act(s, e['delay'])} over the {e['kind']} connection {e['sa']}->{e['da']}, was still outstanding")
    return out


def P_C02(ctx, log, outcome='ok', **kw):
    begins, done, _, _ = index_trace(ctx, log)
    dem = demands_of(ctx, log)
    out = []
    per = collections.defaultdict(list)
    for (n, sid, t, _, _) in begins:
        per[sid].append(t)
        if not (0 <= t[0] < ctx.until): out.append(f'{sid} stepped at {t}, outside [0, {ctx.until})')
        if (sid, t) not in dem or dem[(sid, t)][0] > n:
            out.append(f'{sid} stepped at {t} (event {n}) although no initial step, self-step or trigger demanded that time')
    for sid, ts in per.items():
        for a, b in zip(ts, ts[1:]):
            if a >= b: out.append(f'{sid} stepped at {a} and then at {b}: not strictly increasing')
    if outcome == 'ok':
        cnt = collections.Counter((sid, t) for _, sid, t, _, _ in begins)
        for k in dem:
            if cnt.get(k, 0) != 1:
                out.append(f'demanded step {k[0]}@{k[1]} was executed {cnt.get(k, 0)} times')
    elif outcome in ('internal:backwards', 'internal:past') and kw.get('case') is not None:
        # the scheduler itself gave up (its own consistency assertion, no simulator misbehaved): what had been demanded by
        # then is lost.  (Non-convex group scenarios are left to the known finding F9: the tables there depend on set order.)
        from . import tracelib
        if tracelib.convex(kw['case']):
            cnt = collections.Counter((sid, t) for _, sid, t, _, _ in begins)
            lost = [k for k in dem if cnt.get(k, 0) == 0 and 0 <= k[1][0] < ctx.until]
            if lost:
                out.append(f'the scheduler aborted with its own assertion ({outcome}) and the demanded step {lost[0][0]}@{lost[0][1]} (and {len(lost) - 1} more) was never executed')
    return out


def P_C07(ctx, log, **kw):
    begins, _, _, _ = index_trace(ctx, log)
    dem = demands_of(ctx, log)
    has_trigger_in = {e['b'] for e in ctx.edges if e['trigger']}
    out = []
    for (n, i, t, m, _) in begins:
        if m > ctx.until: out.append(f'{i}@{t}: max_advance {m} exceeds until {ctx.until}')
        if i not in has_trigger_in and m != ctx.until:
            out.append(f'{i}@{t}: max_advance {m} != until {ctx.until} although {i} has no trigger input')
        memo = {}
        def ext(step):
            if step == 'ROOT': return True
            if step in memo: return memo[step]
            sid, tt = step
            if sid == i and tt >= t:
                memo[step] = False; return False
            memo[step] = False
            r = any(ext(s) for s in dem.get(step, [0, []])[1])
            memo[step] = r
            return r
        for (dsid, dt), (dn, srcs) in dem.items():
            if dsid != i or not (t[0] < dt[0] <= m): continue
            bad = [s for s in srcs if ext(s)]
            if bad:
                out.append(f'{i} was promised max_advance={m} at {t} but is stepped at {dt} because of {bad[0]} (not caused by {i} itself since {t})')
    return out


def P_C10(ctx, log, lazy=True, **kw):
    if not lazy: return []
    begins, done, _, _ = index_trace(ctx, log)
    dem = demands_of(ctx, log)
    out = []
    for (n, sid, t, _, _) in begins:
        for e in ctx.edges:
            if e['a'] != sid or e['b'] == sid: continue
            lim = act(t, e['plain'])
            for (ds, dt), (dn, _) in dem.items():
                if ds != e['b'] or not (dn < n and dt < lim): continue
                if not any(b[1] == ds and b[2] == dt and b[0] < n for b in begins):
                    out.append(f'{sid} began {t} (event {n}) while its consumer {ds} still has the earlier step {dt} outstanding')
                elif done.get((ds, dt), len(log)) > n:
                    # begun but not finished (step and output retrieval): still outstanding
                    out.append(f'{sid} began {t} (event {n}) while its consumer {ds} is still inside its earlier step {dt}')
    return out


def hyp_C03(ctx, case):
    """hypotheses of the full C03 statement (DESIGN.md C03). 'x:' = outside the property's quantifier (monitor not applied);
    the others name input classes covered by a known finding"""
    bad = []
    slots = collections.Counter((e['a'], e['b'], e['da']) for e in ctx.edges)
    if any(v > 1 for v in slots.values()): bad.append('x:unique_slots')
    if any(e['kind'] == 'w' for e in ctx.edges): bad.append('weak')                       # F11 (same-time sub-steps exist: the data plane is keyed by the integer time)
    if any(e['init'] and not e['persistent'] for e in ctx.edges): bad.append('init_on_event_source')   # F17
    by_attr = collections.defaultdict(list)
    for e in ctx.edges:
        if e['persistent']: by_attr[(e['a'], e['sa'])].append(e)
    for (a, sa), es in by_attr.items():
        # the cache keeps initial data per (source attribute, -shift), not per connection: another connection from the same
        # attribute can read it - unless the producer is time-based (has a real output from time 0 on) and that other connection is plain
        for e1 in es:
            if not e1['init']: continue
            for e2 in es:
                if e2 is e1: continue
                # (a delayed start - an initial event after 0 replacing the step at 0 - means nothing is produced at 0)
                late = any(f'S{i}' == a and t0 > 0 for i, t0 in case.get('init', []))
                if not (ctx.types[a] == 'time-based' and e2['kind'] == 'p' and not e2['init'] and not late):
                    if 'shared_init_slot' not in bad: bad.append('shared_init_slot')   # F10
    # behaviour side
    for k, b in enumerate(case['beh']):
        if b.get('type') == 'hybrid':
            outs = b.get('outputs', {})
            if any('po' not in v[1] for v in outs.values()): bad.append('x:persistent_incomplete'); break
    for k, b in enumerate(case['beh']):
        if not any(e['a'] == f'S{k}' for e in ctx.edges): continue
        # F14 is about output times that GO BACK (a future-stamped output followed by one stamped earlier); output times that
        # are stamped into the future but never decrease along the producer's steps are inside the property
        seq = []
        for key, v in b.get('outputs', {}).items():
            tt, sub = (int(x) for x in key.split(','))
            seq.append(((tt, sub), v[0] if v[0] is not None else tt))
        seq.sort()
        times = [ot for _, ot in seq]
        explicit = any(v[0] is not None for v in b.get('outputs', {}).values())
        if explicit and (any(a > c for a, c in zip(times, times[1:])) or b.get('type') == 'time-based'):
            bad.append('nonmonotone'); break                                                 # F14
    return bad


def P_C03(ctx, log, cache=True, **kw):
    """reference semantics of step inputs (slot semantics), evaluated with the replies received so far"""
    out = []
    produced = []; prev = {}; cur = {}
    for n, l in enumerate(log):
        if l[0] == 'DATA':
            produced.append((l[1], l[2], dict(l[3])))
        elif l[0] == 'SETDATA':
            pass
        elif l[0] == 'BEGIN':
            sid, tau = l[1], l[2][0]
            got = {a: dict(m) for a, m in l[4].get('e', {}).items()}
            pt = prev.get(sid)
            exp = {}
            for e in ctx.edges:
                if e['b'] != sid: continue
                src = e['a']; sa, da, shift = e['sa'], e['da'], e['shift']
                outs = [(k, ot, d) for k, (s, ot, d) in enumerate(produced) if s == src and sa in d]
                if e['persistent']:
                    due = [(k, ot, d) for (k, ot, d) in outs if ot + shift <= tau]
                    if due: val = due[-1][2][sa]
                    elif e['init']: val = f"init{src[1:]}-{sid[1:]}"
                    else:
                        # nothing due yet and no initial data: plain connection, the producer has stepped for tau by C01
                        val = None
                    exp.setdefault(da, {})[src + '.e'] = val
                else:
                    due = [(ot + shift, k, d) for (k, ot, d) in outs if (pt is None or pt < ot + shift) and ot + shift <= tau]
                    if due:
                        due.sort(); exp.setdefault(da, {})[src + '.e'] = due[-1][2][sa]
            got_nosd = {a: {k: v for k, v in m.items() if not str(v).startswith('set')} for a, m in got.items()}
            got_nosd = {a: m for a, m in got_nosd.items() if m}
            if got_nosd != exp:
                out.append(f'{sid}@{tuple(l[2])}: inputs {got_nosd} but the data-flow semantics gives {exp}')
            prev[sid] = tau
    if not out and kw.get('outcome', 'ok') == 'ok' and kw.get('case') is not None:
        out += P_C03_absolute(ctx, log, kw['case'])
    return out


def P_C03_absolute(ctx, log, case):
    """'the most recent value the source produced whose delayed output time is at or before t' over the WHOLE run, not only
    over what had been produced when the step began: for a plain connection between two simulators of the same group (delay
    zero in every tier) from a persistent attribute of a source that never stamps its outputs with another time, a step at
    tiered time T must be given the source's last output of a step at or before T - whenever in the run that output was
    produced.  (The clause above takes the outputs produced so far; it agrees with this one exactly when the consumer
    waited for its provider.)  Failures are marked ABS."""
    out = []
    grp = {f'S{k}': tuple(case['grp'][k]) for k in range(case['n'])}
    cur = {}; prod = collections.defaultdict(list); explicit = set()
    for l in log:
        if l[0] == 'BEGIN': cur[l[1]] = tuple(l[2])
        elif l[0] == 'DATA':
            if l[1] in cur:
                if l[2] != cur[l[1]][0]: explicit.add(l[1])
                prod[l[1]].append((cur[l[1]], dict(l[3])))
    for l in log:
        if l[0] != 'BEGIN': continue
        sid, T = l[1], tuple(l[2])
        got = {a: dict(m) for a, m in l[4].get('e', {}).items()}
        for e in ctx.edges:
            if e['b'] != sid or e['kind'] != 'p' or not e['persistent'] or e['init'] or e['a'] in explicit or grp[e['a']] != grp[sid] or e['a'] == sid: continue
            if sum(1 for x in ctx.edges if x['b'] == sid and x['da'] == e['da'] and x['a'] == e['a']) != 1: continue
            due = [d for (ts, d) in prod[e['a']] if ts <= T and e['sa'] in d]
            if not due: continue
            want = due[-1][e['sa']]
            have = got.get(e['da'], {}).get(e['a'] + '.e', 'MISSING')
            if have != want:
                # a value of a LATER sub-step of the same time (the cache is keyed by the integer time: known finding F11) is
                # marked differently from a stale or missing one (the step did not wait for its provider)
                later = [d[e['sa']] for (ts, d) in prod[e['a']] if ts > T and ts[0] == T[0] and e['sa'] in d]
                if have in later:
                    out.append(f"ABS-LATER {sid}@{T}: attribute {e['da']} shows {have!r} from {e['a']}, the value of a later sub-step of the same time; the last output at or before {T} is {want!r}")
                else:
                    out.append(f"ABS {sid}@{T}: attribute {e['da']} shows {have!r} from {e['a']}, but the last output of {e['a']} for a step at or before {T} is {want!r} "
                               f"(produced later in the run: the step did not wait for it)")
                return out
    return out


def P_C09(ctx, log, outcome_kind='ok', outcome_sim=None, maxloop=100, **kw):
    """loop guard: BEGIN never has a sub-tier >= maxloop; a run aborted by the guard names a simulator whose next
    step would exceed it (checked through the model in the correspondence); settled loops are not interrupted."""
    out = []
    for l in log:
        if l[0] == 'BEGIN' and any(x >= maxloop for x in l[2][1:]):
            out.append(f'{l[1]} was stepped at {tuple(l[2])} although a sub-step index reached max_loop_iterations={maxloop}')
    # "loops that settle within the bound are never interrupted": the guard may only fire for a simulator one of whose
    # demanded (not yet executed) steps carries a sub-step index that reached the bound; the demanded tiered times are
    # recomputed from the replies in the trace (demands_of), not taken from the scheduler
    # "... and simulation time then advances normally": when the run completes, every demanded step (also those of later
    # time steps, after a loop has settled) has been executed exactly once
    if outcome_kind == 'ok':
        out += ['simulation time does not advance normally: ' + x for x in P_C02(ctx, log, outcome='ok') if 'was executed' in x]
    if outcome_kind == 'deadlock' and kw.get('case') is not None and tracelib.convex(kw['case']) \
            and any(e['kind'] == 'w' for e in kw['case']['edges']) and any(len(l[2]) > 1 for l in log if l[0] == 'BEGIN'):
        # a scenario with same-time (weak) connections whose run stalls: neither is the loop stopped with a
        # SimulationError nor does time advance (non-convex scenarios stall under lazy stepping: known finding F21 of C05)
        out.append('run() stalled in a scenario with same-time loops: no SimulationError and simulation time does not advance (deadlock)')
    if outcome_kind in ('internal:backwards', 'internal:past') and kw.get('case') is not None and tracelib.convex(kw['case']):
        # the scheduler's own assertion ended the run while an iteration of a same-time loop was still demanded: the loop is
        # neither allowed to settle nor stopped by the guard with a SimulationError
        dem = demands_of(ctx, log)
        begun = {(l[1], tuple(l[2])) for l in log if l[0] == 'BEGIN'}
        pending = [k for k in dem if k not in begun and any(x > 0 for x in k[1][1:]) and all(x < maxloop for x in k[1][1:])]
        if pending:
            out.append(f'a same-time loop was interrupted by the scheduler\'s own assertion ({outcome_kind}): the demanded sub-step {pending[0][0]}@{pending[0][1]} was never executed, '
                       f'no SimulationError names a simulator and simulation time does not advance')
    if outcome_kind == 'loop':
        dem = demands_of(ctx, log)
        begun = {(l[1], tuple(l[2])) for l in log if l[0] == 'BEGIN'}
        over = [k for k in dem if k not in begun and any(x >= maxloop for x in k[1][1:])]
        if not any(k[0] == outcome_sim for k in over):
            if over:
                out.append(f'run() was stopped by the loop guard naming {outcome_sim}, but the demanded steps that reach max_loop_iterations={maxloop} belong to {sorted({k[0] for k in over})}')
            else:
                out.append(f'run() was stopped by the loop guard naming {outcome_sim} although no demanded step has a sub-step index that reaches '
                           f'max_loop_iterations={maxloop} (a loop that settled was interrupted)')
    return out


def P_C13(ctx, log, case=None, outcome_kind='ok', outcome_sim=None, **kw):
    """a malformed reply aborts run() with an error naming the simulator; nothing is stepped afterwards"""
    out = []
    mal = case.get('malformed') if case else None
    bad_at = None
    cur = {}
    for n, l in enumerate(log):
        if l[0] == 'BEGIN': cur[l[1]] = tuple(l[2])
        if l[0] == 'STEP':
            r, sid = l[2], l[1]
            t = cur[sid][0]
            isbad = (r is not None and not isinstance(r, int)) or (isinstance(r, int) and r <= t) or (r is None and ctx.types[sid] == 'time-based')
            if isbad and bad_at is None: bad_at = (n, sid, f'next step {r!r} at time {t}')
        if l[0] == 'DATA':
            sid, ot = l[1], l[2]
            if isinstance(ot, int) and ot < cur[sid][0] and bad_at is None: bad_at = (n, sid, f'output time {ot} < step time {cur[sid][0]}')
    if bad_at is not None:
        n, sid, what = bad_at
        later = [l for l in log[n + 1:] if l[0] == 'BEGIN']
        if outcome_kind not in ('reply', 'outtime'):
            out.append(f'{sid} replied {what}; run() ended with "{outcome_kind}" instead of an error naming {sid}')
        elif outcome_sim != sid:
            out.append(f'{sid} replied {what}; the error names {outcome_sim}')
        if later and outcome_kind in ('reply', 'outtime'):
            pass   # other simulators may have been mid-flight (known finding F16 covers steps after the abort)
    elif outcome_kind in ('reply', 'outtime'):
        out.append(f'run() failed with a reply error naming {outcome_sim} although every reply was well-formed')
    return out


def setdata_delivery(ctx, log):
    """'no value is lost', for the values written with set_data: a step is given exactly the values written for its simulator
    since its previous step, each under the id of the entity that wrote it (permission and ordering are C16's business)"""
    out = []
    pending = collections.defaultdict(dict)
    for l in log:
        if l[0] == 'SETDATA':
            _, writer, dest, attr, tok = l[:5]
            if not any(e['asyn'] and e['a'] == dest and e['b'] == writer for e in ctx.edges): break
            went = 'e' if len(l) < 6 or l[5] == 0 else f'a{l[5]}'
            pending[dest][(attr, f'{writer}.{went}')] = tok
        elif l[0] == 'BEGIN':
            sid = l[1]
            got = {(a, k): v for a, m in l[4].get('e', {}).items() for k, v in m.items() if str(v).startswith('set')}
            if got != pending[sid]:
                out.append(f'{sid}@{tuple(l[2])}: values written with set_data that arrive: {got}; written since its previous step: {dict(pending[sid])}')
            pending[sid] = {}
    return out


def P_C16(ctx, log, **kw):
    """set_data register semantics + ordering of an async predecessor behind its agent"""
    out = []
    pending = collections.defaultdict(dict)     # dest sim -> (attr, writer) -> token
    begins, done, _, _ = index_trace(ctx, log)
    for n, l in enumerate(log):
        if l[0] == 'SETDATA':
            _, writer, dest, attr, tok = l[:5]
            went = 'e' if len(l) < 6 or l[5] == 0 else f'a{l[5]}'
            if not any(e['asyn'] and e['a'] == dest and e['b'] == writer for e in ctx.edges):
                if kw.get('outcome_kind') != 'async':
                    out.append(f'{writer} called set_data towards {dest} without an async_requests connection and was not refused (run ended with {kw.get("outcome_kind")})')
                break
            pending[dest][(attr, f'{writer}.{went}')] = tok
        elif l[0] == 'GETDATA':
            _, asker, dest, attr = l
            if not any(e['asyn'] and e['a'] == dest and e['b'] == asker for e in ctx.edges):
                if kw.get('outcome_kind') != 'async':
                    out.append(f'{asker} called get_data towards {dest} without an async_requests connection and was not refused (run ended with {kw.get("outcome_kind")})')
                break
            if not any(x[0] == 'GOTDATA' and x[1:4] == l[1:4] for x in log[n + 1:]) and kw.get('outcome_kind') == 'async':
                out.append(f'{asker} called get_data towards {dest} over an async_requests connection and was refused')
                break
        elif l[0] == 'BEGIN':
            sid = l[1]
            got = {(a, k): v for a, m in l[4].get('e', {}).items() for k, v in m.items() if str(v).startswith('set')}
            if got != pending[sid]:
                out.append(f'{sid}@{tuple(l[2])}: set_data inputs {got}, expected exactly the values written since its previous step {dict(pending[sid])}')
            for (a, k), v in got.items():
                # "in A's next step": the step of A that follows the time t of the agent's step, not A's own step for t
                m = re.search(r'@(\d+)$', str(v))
                if m and not l[2][0] > int(m.group(1)):
                    out.append(f'{sid}@{tuple(l[2])}: receives {v}, written by {k} during its step at time {m.group(1)}: not a later step of {sid}')
            pending[sid] = {}
    for e in ctx.edges:
        if not e['asyn']: continue
        A, B = e['a'], e['b']
        for (p, sid, t, _, _) in begins:
            if sid != B: continue
            fin = done.get((B, t), 10 ** 9)
            for (q, sid2, s, _, _) in begins:
                if sid2 == A and p < q < fin and s > act(t, e['plain'])[:len(s)] and s[0] > t[0]:
                    out.append(f'{A} began {s} (event {q}) while its agent {B} was still in its step {t} (events {p}..{fin})')
    return out
