#!/usr/bin/env python3
"""Fail-closed translator for mosaik/tiered_time.py (and scenario.update_min) -> Coq.

Only the Python subset that these files use is understood; anything else makes the
translator exit with status 2, which the checks treat as a broken tie (see DESIGN.md 2.2a).
Usage: py2coq.py <repo> <outdir>   writes <outdir>/TieredTime.v and <outdir>/UpdateMin.v
"""
import ast, sys

class Unsupported(Exception): pass
def bail(node, why=""):
    raise Unsupported(f"line {getattr(node,'lineno','?')}: {type(node).__name__} {why}")

INT, BOOL, TUP = 'int', 'bool', 'tuple'
CLASSES = {}   # name -> dict(fields={name:type}, props={name:type}, methods={name:(argtypes, ret)})
FUNCS = {}     # name -> ret type

def ann_type(a):
    if a is None: return None
    s = ast.unparse(a)
    if s in ('int',): return INT
    if s in ('bool',): return BOOL
    if s.startswith('tuple[int'): return TUP
    if s in CLASSES or s in ('TieredInterval','TieredTime'): return s
    if s == 'int | None': return 'optint'
    raise Unsupported('annotation '+s)

class Fn:
    """Translate one function body into a Coq term of type res T (continuation style)."""
    def __init__(self, cls, fdef, env):
        self.cls=cls; self.f=fdef; self.env=dict(env); self.fresh=0
    def ty(self, e):
        if isinstance(e, ast.Constant):
            if isinstance(e.value,bool): return BOOL
            if isinstance(e.value,int): return INT
            if e.value is None: return 'none'
        if isinstance(e, ast.Name):
            if e.id in self.env: return self.env[e.id]
            bail(e,'unknown name '+e.id)
        if isinstance(e, ast.Attribute):
            t=self.ty(e.value)
            c=CLASSES.get(t) or bail(e,'attr on '+str(t))
            if e.attr in c['fields']: return c['fields'][e.attr]
            if e.attr in c['props']: return c['props'][e.attr]
            bail(e,'unknown attr '+e.attr)
        if isinstance(e, ast.Tuple): return TUP
        if isinstance(e, ast.Subscript):
            if isinstance(e.slice, ast.Slice): return TUP
            return INT
        if isinstance(e, ast.BinOp):
            l=self.ty(e.left); r=self.ty(e.right)
            if isinstance(e.op, ast.Add): 
                if l==r==INT: return INT
                if l==r==TUP: return TUP
                if l in CLASSES: return CLASSES[l]['methods']['__add__'][1]
            if isinstance(e.op, ast.Mult) and {l,r}=={TUP,INT}: return TUP
            if isinstance(e.op, ast.Sub) and l==r==INT: return INT
            bail(e,'binop types')
        if isinstance(e, ast.Compare): return BOOL
        if isinstance(e, ast.BoolOp): return BOOL
        if isinstance(e, ast.Call):
            fn=e.func
            if isinstance(fn, ast.Name):
                if fn.id=='len': return INT
                if fn.id=='min': return INT
                if fn.id=='tuple': return TUP
                if fn.id in FUNCS: return FUNCS[fn.id]
                if fn.id in CLASSES: return fn.id
            bail(e,'call')
        bail(e,'type of')
    # expressions: returns (list of (var, monadic_term) binds, pure coq expr)
    def ex(self, e):
        if isinstance(e, ast.Constant):
            if isinstance(e.value,bool): return [], 'true' if e.value else 'false'
            if isinstance(e.value,int): return [], f'({e.value})%Z'
            bail(e,'constant')
        if isinstance(e, ast.Name): return [], self.rename(e.id)
        if isinstance(e, ast.Attribute):
            b,v=self.ex(e.value); t=self.ty(e.value); c=CLASSES[t]
            if e.attr in c['fields']: return b, f'({t}_{e.attr} {v})'
            if e.attr in c['props']:
                x=self.newvar(); return b+[(x, f'{t}_{e.attr} {v}')], x
        if isinstance(e, ast.Tuple):
            bs=[]; vs=[]
            for el in e.elts:
                b,v=self.ex(el); bs+=b; vs.append(v)
            return bs, '['+'; '.join(vs)+']'
        if isinstance(e, ast.Subscript) and isinstance(e.slice, ast.Slice):
            if e.slice.step is not None: bail(e,'slice step')
            b,v=self.ex(e.value); bs=b
            lo='None'; hi='None'
            if e.slice.lower is not None:
                b2,l=self.ex(e.slice.lower); bs+=b2; lo=f'(Some {l})'
            if e.slice.upper is not None:
                b3,h=self.ex(e.slice.upper); bs+=b3; hi=f'(Some {h})'
            return bs, f'(py_slice {v} {lo} {hi})'
        if isinstance(e, ast.Subscript):
            b,v=self.ex(e.value); b2,i=self.ex(e.slice)
            x=self.newvar(); return b+b2+[(x, f'py_index {v} {i}')], x
        if isinstance(e, ast.BinOp):
            bl,l=self.ex(e.left); br,r=self.ex(e.right); tl=self.ty(e.left); tr=self.ty(e.right)
            if isinstance(e.op, ast.Add):
                if tl==tr==INT: return bl+br, f'({l} + {r})%Z'
                if tl==tr==TUP: return bl+br, f'({l} ++ {r})'
                if tl in CLASSES:
                    x=self.newvar(); return bl+br+[(x, f'{tl}___add__ {l} {r}')], x
            if isinstance(e.op, ast.Sub): return bl+br, f'({l} - {r})%Z'
            if isinstance(e.op, ast.Mult):
                if tl==TUP: return bl+br, f'(py_tuple_mul {l} {r})'
                return bl+br, f'(py_tuple_mul {r} {l})'
            bail(e,'binop')
        if isinstance(e, ast.Compare):
            bs,l=self.ex(e.left); parts=[]; cur=l; curt=self.ty(e.left)
            for op,c in zip(e.ops, e.comparators):
                b,r=self.ex(c); bs+=b; rt=self.ty(c)
                if isinstance(op,(ast.Is,ast.IsNot)): bail(e,'is')
                if curt==INT and rt==INT:
                    sym={ast.Lt:'<?',ast.LtE:'<=?',ast.Gt:'>?',ast.GtE:'>=?',ast.Eq:'=?'}.get(type(op)) or bail(e,'cmp op')
                    parts.append(f'({cur} {sym} {r})%Z')
                elif curt==TUP and rt==TUP:
                    fn={ast.Lt:'py_tuple_lt',ast.Eq:'py_tuple_eq'}.get(type(op)) or bail(e,'tuple cmp')
                    parts.append(f'({fn} {cur} {r})')
                else: bail(e,f'compare {curt} {rt}')
                cur=r; curt=rt
            return bs, '('+' && '.join(parts)+')'
        if isinstance(e, ast.Call):
            fn=e.func
            if isinstance(fn, ast.Name):
                if fn.id=='len':
                    a=e.args[0]; t=self.ty(a); b,v=self.ex(a)
                    if t==TUP: return b, f'(py_len {v})'
                    if t in CLASSES:
                        x=self.newvar(); return b+[(x, f'{t}___len__ {v}')], x
                if fn.id=='min':
                    b1,a=self.ex(e.args[0]); b2,c=self.ex(e.args[1]); return b1+b2, f'(Z.min {a} {c})'
                if fn.id=='tuple' and isinstance(e.args[0], ast.GeneratorExp):
                    g=e.args[0]; comp=g.generators[0]
                    if len(g.generators)!=1 or comp.ifs: bail(e,'generator')
                    it=comp.iter
                    if not(isinstance(it,ast.Call) and isinstance(it.func,ast.Name) and it.func.id=='zip' and len(it.args)==2): bail(e,'generator iter')
                    b1,a=self.ex(it.args[0]); b2,c=self.ex(it.args[1])
                    xs=[n.id for n in comp.target.elts]
                    sub=Fn(self.cls,self.f,{**self.env, xs[0]:INT, xs[1]:INT}); sub.ren=dict(getattr(self,'ren',{}))
                    bb,body=sub.ex(g.elt)
                    if bb: bail(e,'monadic generator body')
                    return b1+b2, f'(py_zipwith (fun {xs[0]} {xs[1]} => {body}) {a} {c})'
                if fn.id in FUNCS:
                    bs=[]; vs=[]
                    for a in e.args:
                        b,v=self.ex(a); bs+=b; vs.append(v)
                    x=self.newvar(); return bs+[(x, f'{fn.id} '+' '.join(vs))], x
                if fn.id in CLASSES:
                    # constructor: Cls(*tiers, kw=...)
                    if len(e.args)!=1 or not isinstance(e.args[0], ast.Starred): bail(e,'ctor args')
                    b,v=self.ex(e.args[0].value); bs=b
                    kws={}
                    for k in e.keywords:
                        bk,vk=self.ex(k.value); bs+=bk; kws[k.arg]=vk
                    order=CLASSES[fn.id]['ctor_kw']
                    args=' '.join(f'(Some {kws[k]})' if k in kws else 'None' for k in order)
                    x=self.newvar(); return bs+[(x, f'{fn.id}_new {v} {args}'.rstrip())], x
            bail(e,'call')
        bail(e,'expr')
    def newvar(self):
        self.fresh+=1; return f'_t{self.fresh}'
    def rename(self, n): return getattr(self,'ren',{}).get(n,n)
    def bind(self, binds, body):
        for x,m in reversed(binds): body=f'(bind ({m}) (fun {x} => {body}))'
        return body
    # statements -> term; k = continuation term producer (string) for fallthrough
    def stmts(self, ss, k, inloop=False):
        if not ss: return k
        s,rest=ss[0],ss[1:]
        if isinstance(s, ast.Expr) and isinstance(s.value, ast.Constant): return self.stmts(rest,k,inloop)   # docstring
        if isinstance(s, ast.Assert):
            if isinstance(s.test, ast.Constant) and s.test.value is False:
                return 'Return AssertFail' if inloop else 'AssertFail'
            b,c=self.ex(s.test)
            fail='Return AssertFail' if inloop else 'AssertFail'
            return self.bind(b, f'(if {c} then {self.stmts(rest,k,inloop)} else {fail})') if not inloop else \
                   self.bindl(b, f'(if {c} then {self.stmts(rest,k,inloop)} else {fail})')
        if isinstance(s, ast.Return):
            b,v=self.ex(s.value)
            return (self.bindl(b, f'Return (Ok {v})') if inloop else self.bind(b, f'Ok {v}'))
        if isinstance(s, ast.Assign):
            if len(s.targets)!=1 or not isinstance(s.targets[0], ast.Name): bail(s,'assign target')
            b,v=self.ex(s.value); n=s.targets[0].id
            self.env[n]=self.ty(s.value)
            body=f'(let {n} := {v} in {self.stmts(rest,k,inloop)})'
            return self.bindl(b,body) if inloop else self.bind(b,body)
        if isinstance(s, ast.If):
            # `x is None` tests on option params
            t=s.test
            if isinstance(t, ast.Compare) and isinstance(t.ops[0], ast.Is) and isinstance(t.comparators[0], ast.Constant) and t.comparators[0].value is None:
                n=t.left.id
                if len(s.body)!=1 or s.orelse or not isinstance(s.body[0],ast.Assign) or s.body[0].targets[0].id!=n: bail(s,'is None pattern')
                b,v=self.ex(s.body[0].value)
                self.env[n]=INT
                if b: bail(s,'monadic default')
                return f'(let {n} := match {n} with Some _v => _v | None => {v} end in {self.stmts(rest,k,inloop)})'
            b,c=self.ex(t)
            saved=dict(self.env)
            th=self.stmts(s.body+rest,k,inloop); env_th=self.env; self.env=dict(saved)
            el=self.stmts(s.orelse+rest,k,inloop)
            for n,ty in env_th.items(): self.env.setdefault(n,ty)
            body=f'(if {c} then {th} else {el})'
            return self.bindl(b,body) if inloop else self.bind(b,body)
        if isinstance(s, ast.For):
            # for i, (s, o) in enumerate(zip(a, b)):
            it=s.iter
            ok=isinstance(it,ast.Call) and getattr(it.func,'id',None)=='enumerate' and isinstance(it.args[0],ast.Call) and getattr(it.args[0].func,'id',None)=='zip'
            if not ok or s.orelse: bail(s,'for pattern')
            tg=s.target
            i=tg.elts[0].id; a,bn=[n.id for n in tg.elts[1].elts]
            b1,xs=self.ex(it.args[0].args[0]); b2,ys=self.ex(it.args[0].args[1])
            self.env.update({i:INT,a:INT,bn:INT})
            body=self.stmts(s.body,'Continue',True)
            after=self.stmts(rest,k,False)
            return self.bind(b1+b2, f'(for_enum_zip 0%Z {xs} {ys} (fun {i} {a} {bn} => {body}) ({after}))')
        bail(s,'statement')
    def bindl(self, binds, body):
        for x,m in reversed(binds): body=f'(bindl ({m}) (fun {x} => {body}))'
        return body

def coq_type(t):
    return {INT:'Z',BOOL:'bool',TUP:'list Z','optint':'option Z'}.get(t,t)

def translate(src):
    mod=ast.parse(src); out=[]
    # pass 1: signatures
    for n in mod.body:
        if isinstance(n, ast.FunctionDef): FUNCS[n.name]=ann_type(n.returns)
        if isinstance(n, ast.ClassDef):
            fields={}; props={}; methods={}
            for m in n.body:
                if isinstance(m, ast.AnnAssign): fields[m.target.id]=ann_type(m.annotation)
            CLASSES[n.name]=dict(fields=fields,props=props,methods=methods,ctor_kw=[])
    for n in mod.body:
        if isinstance(n, ast.ClassDef):
            c=CLASSES[n.name]
            for m in n.body:
                if isinstance(m, ast.FunctionDef):
                    isprop=any(getattr(d,'id',None)=='property' for d in m.decorator_list)
                    ret=ann_type(m.returns) if m.returns is not None else (BOOL if m.name=='__lt__' else None)
                    if isprop: c['props'][m.name]=ret
                    elif m.name=='__init__': c['ctor_kw']=[a.arg for a in m.args.kwonlyargs]
                    else: c['methods'][m.name]=([ann_type(a.annotation) for a in m.args.args[1:]],ret)
    # pass 2: bodies
    for n in mod.body:
        if isinstance(n,(ast.Import,ast.ImportFrom)): continue
        if isinstance(n, ast.Expr) and isinstance(n.value, ast.Constant): continue
        if isinstance(n, ast.FunctionDef):
            env={a.arg:ann_type(a.annotation) for a in n.args.args}
            f=Fn(None,n,env); body=f.stmts(n.body,'AssertFail')
            params=' '.join(f'({a.arg} : {coq_type(env[a.arg])})' for a in n.args.args)
            out.append(f'Definition {n.name} {params} : res ({coq_type(FUNCS[n.name])}) :=\n  {body}.\n')
        elif isinstance(n, ast.ClassDef):
            c=CLASSES[n.name]
            decos=[ast.unparse(d) for d in n.decorator_list]
            if decos!=['functools.total_ordering','dataclass(frozen=True)']: bail(n,'class decorators '+str(decos))
            fl='; '.join(f'{n.name}_{k} : {coq_type(t)}' for k,t in c['fields'].items())
            out.append(f'Record {n.name} := mk_{n.name} {{ {fl} }}.\n')
            for m in n.body:
                if isinstance(m, ast.AnnAssign): continue
                if not isinstance(m, ast.FunctionDef): bail(m,'class member')
                if m.name=='__repr__': continue
                if m.name=='__init__':
                    va=m.args.vararg.arg
                    env={va:TUP}; 
                    for a in m.args.kwonlyargs: env[a.arg]='optint'
                    f=Fn(n.name,m,env)
                    # collect setattr calls
                    sets={}; stm=[]
                    for s in m.body:
                        if isinstance(s,ast.Expr) and isinstance(s.value,ast.Call) and ast.unparse(s.value.func)=='object.__setattr__':
                            sets[s.value.args[1].value]=s.value.args[2]
                        else: stm.append(s)
                    if set(sets)!=set(c['fields']): bail(m,'ctor fields')
                    class K: pass
                    # continuation: build record from final env
                    def fin():
                        vals=[]; bs=[]
                        for k in c['fields']:
                            b,v=f.ex(sets[k]); bs+=b; vals.append(v)
                        return f.bind(bs, f'Ok (mk_{n.name} '+' '.join(vals)+')')
                    # translate with placeholder, then substitute (env needed at end)
                    body=f.stmts(stm,'@@FIN@@'); body=body.replace('@@FIN@@',fin())
                    params=f'({va} : list Z) '+' '.join(f'({a.arg} : option Z)' for a in m.args.kwonlyargs)
                    out.append(f'Definition {n.name}_new {params} : res {n.name} :=\n  {body}.\n')
                    continue
                env={'self':n.name}
                for a in m.args.args[1:]: env[a.arg]=ann_type(a.annotation)
                isprop=any(getattr(d,'id',None)=='property' for d in m.decorator_list)
                ret=c['props'][m.name] if isprop else c['methods'][m.name][1]
                f=Fn(n.name,m,env); body=f.stmts(m.body,'AssertFail')
                params=' '.join(f'({a} : {coq_type(t)})' for a,t in env.items())
                out.append(f'Definition {n.name}_{m.name} {params} : res ({coq_type(ret)}) :=\n  {body}.\n')
            # dataclass(frozen=True) __eq__: field-wise; functools.total_ordering: derived from __lt__ and __eq__
            if '__lt__' not in c['methods'] or '__eq__' in c['methods']: bail(n,'ordering methods')
            eqs=' && '.join((f'(py_tuple_eq ({n.name}_{k} a) ({n.name}_{k} b))' if t==TUP else f'(({n.name}_{k} a) =? ({n.name}_{k} b))%Z') for k,t in c['fields'].items())
            out.append(f'Definition {n.name}___eq__ (a b : {n.name}) : bool := {eqs}.\n')
            out.append(f'Definition {n.name}___le__ (a b : {n.name}) : res bool := py_le_from_lt {n.name}___lt__ {n.name}___eq__ a b.')
            out.append(f'Definition {n.name}___gt__ (a b : {n.name}) : res bool := py_gt_from_lt {n.name}___lt__ {n.name}___eq__ a b.')
            out.append(f'Definition {n.name}___ge__ (a b : {n.name}) : res bool := py_ge_from_lt {n.name}___lt__ a b.\n')
        else: bail(n,'toplevel')
    return '\n'.join(order_defs(out))

def order_defs(chunks):
    """Python resolves method names at call time; Coq needs definitions before use: stable topological order."""
    import re
    names=[re.match(r'(?:Definition|Record) (\w+)',c).group(1) for c in chunks]
    done=[]; emitted=set(); pending=list(range(len(chunks)))
    while pending:
        for k in pending:
            deps=[n for j,n in enumerate(names) if j!=k and j not in emitted and re.search(r'(?<![\w])'+re.escape(n)+r'(?![\w])', chunks[k])]
            if not deps:
                done.append(chunks[k]); emitted.add(k); pending.remove(k); break
        else:
            raise Unsupported('cyclic definitions (recursion is not supported)')
    return done


def translate_update_min(src):
    """scenario.update_min, instantiated at T = TieredInterval (the only use in mosaik)."""
    mod=ast.parse(src)
    fs=[n for n in mod.body if isinstance(n, ast.FunctionDef) and n.name=='update_min']
    if len(fs)!=1: raise Unsupported('update_min not found')
    f=fs[0]
    if [a.arg for a in f.args.args]!=['a','b'] or f.args.vararg or f.args.kwonlyargs or f.decorator_list: bail(f,'signature')
    def ret(s):
        if not isinstance(s, ast.Return): bail(s,'return expected')
        v=s.value
        if isinstance(v, ast.Constant) and v.value is None: return 'Ok None'
        if isinstance(v, ast.Name) and v.id=='b': return 'Ok (Some b)'
        bail(s,'return value')
    body=[s for s in f.body if not (isinstance(s, ast.Expr) and isinstance(s.value, ast.Constant))]
    if len(body)!=3: bail(f,'body shape')
    s1,s2,s3=body
    if not (isinstance(s1, ast.If) and not s1.orelse and len(s1.body)==1 and ast.unparse(s1.test)=='a is None'): bail(s1,'first if')
    if not (isinstance(s2, ast.If) and not s2.orelse and len(s2.body)==1 and isinstance(s2.test, ast.Compare)
            and len(s2.test.ops)==1 and isinstance(s2.test.left, ast.Name) and isinstance(s2.test.comparators[0], ast.Name)): bail(s2,'second if')
    l=s2.test.left.id; r=s2.test.comparators[0].id
    if {l,r}!={'a','b'}: bail(s2,'compare operands')
    op={ast.Lt:'__lt__',ast.LtE:'__le__',ast.Gt:'__gt__',ast.GtE:'__ge__'}.get(type(s2.test.ops[0])) or bail(s2,'compare op')
    l2='a0' if l=='a' else 'b'; r2='a0' if r=='a' else 'b'
    return ("Definition update_min (a : option TieredInterval) (b : TieredInterval) : res (option TieredInterval) :=\n"
            f"  match a with None => {ret(s1.body[0])} | Some a0 => bind (TieredInterval_{op} {l2} {r2}) (fun _c => if _c then {ret(s2.body[0])} else {ret(s3)}) end.\n")

if __name__=='__main__':
    import os
    repo,outdir=sys.argv[1],sys.argv[2]
    os.makedirs(outdir, exist_ok=True)
    try:
        tt=translate(open(os.path.join(repo,'mosaik/tiered_time.py')).read())
        um=translate_update_min(open(os.path.join(repo,'mosaik/scenario.py')).read())
    except Unsupported as e:
        print("UNSUPPORTED:", e, file=sys.stderr); sys.exit(2)
    except Exception as e:
        print("UNSUPPORTED: translator crashed:", repr(e), file=sys.stderr); sys.exit(2)
    hdr="(* generated by harness/py2coq.py from %s -- do not edit; regenerated on every run *)\nFrom MV Require Import Prelude.Py.\n\n"
    def put(name, text):
        p=os.path.join(outdir,name)
        old=open(p).read() if os.path.exists(p) else None
        if old!=text: open(p,'w').write(text)
    put('TieredTime.v', hdr % 'mosaik/tiered_time.py' + tt)
    put('UpdateMin.v', hdr % 'mosaik/scenario.py (update_min)' + "From MV Require Import Gen.TieredTime.\n\n" + um)
