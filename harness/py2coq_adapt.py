#!/usr/bin/env python3
"""Fail-closed translator for the API-version code (mosaik/adapters.py, mosaik/proxies.py) -> Coq (Gen/AdaptFns.v).

Translated (statement by statement, in source order):
  adapters.init_and_get_adapter  -> init_and_get_adapter (init_result : option (list nat)) (explicit_version : option (list nat)) : gen_start
        init_result is what `await base_proxy.init(...)` gave: None = it raised ScenarioError, Some v = the version list
        if C: raise ScenarioError(text)      -> if C then <GTooNew | GMismatch, chosen by the words of the text> else ...
        proxy = base_proxy                    -> the empty adapter stack
        if C: proxy = VxToVyAdapter(proxy)    -> the adapter is put on top of the stack (outermost first)
        a trailing `if ...: warnings.warn(...)` is skipped ; return proxy -> GProxy stack
  proxies.LocalProxy.init        -> local_init (compliant : bool) (version : list nat) : bool * option (list nat)
        (was time_resolution among the keyword arguments of the init request, the version returned or None = ScenarioError)
        if check_api_compliance(self.sim): forced_old_api = False  else: forced_old_api = True; del kwargs["time_resolution"]
        meta = await self.send(("init", (sid,), kwargs))    the moment the keyword arguments are looked at
        version = extract_version(meta)                     version is the parameter
        if forced_old_api and version >= [3]: raise ScenarioError(...)
  proxies.BaseProxy (remote) init and extract_version: compared literally with the text this translator knows
  adapters.V3ToV2Adapter.send / V2ToV1Adapter.send  -> v3_send, v2_send : request -> option request   (None = answered with
        None without reaching the simulator, Some r = r is passed on to the wrapped proxy)
        func_name, args, kwargs = request ; if func_name == "step": request = ("step", args[0:k], kwargs)  -> RStep (min n k)
        if func_name == "setup_done": return None
  adapters.V3ToV2Adapter.meta: self._out.meta.setdefault("type", "time-based") -> v3_meta_type
Conditions: version >= [..] / version < [..] / version != explicit_version / a list variable (truth = not empty) / forced_old_api /
`and`.  Versions are lists of numbers compared like Python lists (Ext/Adapters.v vlt, veq, vge).
Anything else makes the translator exit with status 2 (a broken tie).
Usage: py2coq_adapt.py <repo> <outdir>
"""
import ast, os, sys


class Unsupported(Exception):
    pass


def bail(node, why=''):
    raise Unsupported(f"line {getattr(node, 'lineno', '?')}: {type(node).__name__} {why}")


def strip_doc(body):
    body = list(body)
    if body and isinstance(body[0], ast.Expr) and isinstance(body[0].value, ast.Constant) and isinstance(body[0].value.value, str): body = body[1:]
    return body


def vlist(e):
    if isinstance(e, ast.List) and all(isinstance(x, ast.Constant) and isinstance(x.value, int) and 0 <= x.value < 1000 for x in e.elts):
        return '[' + '; '.join(str(x.value) for x in e.elts) + ']'
    bail(e, 'version literal')


def cond(e, bools, optlists):
    """bools: names of boolean variables; optlists: names of option (list nat) variables"""
    if isinstance(e, ast.BoolOp) and isinstance(e.op, ast.And):
        return '(' + ' && '.join(cond(v, bools, optlists) for v in e.values) + ')'
    if isinstance(e, ast.Name) and e.id in bools: return e.id
    if isinstance(e, ast.Name) and e.id in optlists: return f"(match {e.id} with Some (_ :: _) => true | _ => false end)"
    if isinstance(e, ast.Compare) and len(e.ops) == 1 and isinstance(e.left, ast.Name) and e.left.id == 'version':
        op, r = e.ops[0], e.comparators[0]
        if isinstance(op, ast.GtE): return f"vge version {vlist(r)}"
        if isinstance(op, ast.Lt): return f"vlt version {vlist(r)}"
        if isinstance(op, ast.NotEq) and isinstance(r, ast.Name) and r.id in optlists:
            return f"(match {r.id} with Some e => negb (veq version e) | None => true end)"
    bail(e, 'condition ' + ast.unparse(e))


def raise_text(st):
    if not (isinstance(st, ast.Raise) and isinstance(st.exc, ast.Call) and ast.unparse(st.exc.func) == 'ScenarioError'): bail(st, 'raise')
    return ' '.join(c.value for c in ast.walk(st.exc) if isinstance(c, ast.Constant) and isinstance(c.value, str))


def find(tree, cls, fn, is_async=None):
    scope = tree.body
    if cls:
        cs = [n for n in tree.body if isinstance(n, ast.ClassDef) and n.name == cls]
        if len(cs) != 1: raise Unsupported(f'class {cls} not found')
        scope = cs[0].body
    fs = [n for n in scope if isinstance(n, (ast.FunctionDef, ast.AsyncFunctionDef)) and n.name == fn]
    if not fs: raise Unsupported(f'{cls}.{fn} not found')
    if is_async is not None:
        fs = [f for f in fs if isinstance(f, ast.AsyncFunctionDef) == is_async]
    if len(fs) != 1: raise Unsupported(f'{cls}.{fn}: {len(fs)} definitions')
    return fs[0]


EXPLICIT = ("if explicit_version_str is not None:\n    explicit_version = list(map(int, explicit_version_str.split('.')))\n"
            "else:\n    explicit_version = None")
ADAPTERS = {'V2ToV1Adapter': 'A_V2ToV1', 'V3ToV2Adapter': 'A_V3ToV2'}


def gen_init_and_get_adapter(fn):
    if [a.arg for a in fn.args.args] != ['base_proxy', 'sid', 'sim_params', 'explicit_version_str']: bail(fn, 'signature')
    body = strip_doc(fn.body)
    if not body or ast.unparse(body[0]) != EXPLICIT: bail(body[0] if body else fn, 'parsing of the explicit version')
    tr = body[1]
    if not (isinstance(tr, ast.Try) and len(tr.body) == 1 and ast.unparse(tr.body[0]) == 'version = await base_proxy.init(sid, **sim_params)'
            and len(tr.handlers) == 1 and ast.unparse(tr.handlers[0].type) == 'ScenarioError' and len(tr.handlers[0].body) == 1
            and isinstance(tr.handlers[0].body[0], ast.Raise) and not tr.orelse and not tr.finalbody): bail(tr, 'the init call')
    raise_text(tr.handlers[0].body[0])
    out = ["match init_result with None => GInitFailed | Some version =>"]
    have_proxy = False; returned = False
    for st in body[2:]:
        if returned: bail(st, 'code after return')
        if isinstance(st, ast.If) and not st.orelse and len(st.body) == 1 and isinstance(st.body[0], ast.Raise):
            if have_proxy: bail(st, 'a check after the adapters are chosen')
            text = raise_text(st.body[0])
            if 'too new' in text: res = 'GTooNew'
            elif 'does not match' in text: res = 'GMismatch'
            else: bail(st, 'unknown error: ' + text[:60])
            out.append(f"if {cond(st.test, set(), {'explicit_version'})} then {res} else")
        elif ast.unparse(st) in ('proxy: Proxy = base_proxy', 'proxy = base_proxy'):
            if have_proxy: bail(st, 'proxy assigned twice')
            have_proxy = True
            out.append("let proxy := @nil adapter in")
        elif isinstance(st, ast.If) and not st.orelse and len(st.body) == 1 and isinstance(st.body[0], ast.Assign) and have_proxy \
                and ast.unparse(st.body[0].targets[0]) == 'proxy' and isinstance(st.body[0].value, ast.Call) \
                and ast.unparse(st.body[0].value.func) in ADAPTERS and [ast.unparse(a) for a in st.body[0].value.args] == ['proxy'] and not st.body[0].value.keywords:
            out.append(f"let proxy := if {cond(st.test, set(), {'explicit_version'})} then {ADAPTERS[ast.unparse(st.body[0].value.func)]} :: proxy else proxy in")
        elif isinstance(st, ast.If) and not st.orelse and all(isinstance(s, ast.Expr) and isinstance(s.value, ast.Call) and ast.unparse(s.value.func) == 'warnings.warn' for s in st.body):
            continue
        elif isinstance(st, ast.Return) and ast.unparse(st) == 'return proxy' and have_proxy:
            out.append("GProxy proxy"); returned = True
        else:
            bail(st, 'statement: ' + ast.unparse(st)[:80])
    if not returned: bail(fn, 'no return')
    return ("Definition init_and_get_adapter (init_result : option (list nat)) (explicit_version : option (list nat)) : gen_start :=\n  "
            + "\n  ".join(out) + "\n  end.\n")


COMPLIANCE = 'if check_api_compliance(self.sim):\n    forced_old_api = False\nelse:\n    forced_old_api = True\n    del kwargs[\'time_resolution\']'


def gen_local_init(fn):
    if [a.arg for a in fn.args.args] != ['self', 'sid'] or fn.args.kwarg is None or fn.args.kwarg.arg != 'kwargs': bail(fn, 'signature')
    body = strip_doc(fn.body)
    out = ["let time_resolution := true in"]
    sent = False; have_version = False; returned = False
    for st in body:
        if returned: bail(st, 'code after return')
        text = ast.unparse(st)
        if text == COMPLIANCE:
            if sent: bail(st, 'compliance test after the init request')
            out.append("let '(forced_old_api, time_resolution) := if compliant then (false, time_resolution) else (true, false) in")
        elif text == "meta = await self.send(('init', (sid,), kwargs))":
            if sent: bail(st, 'two init requests')
            sent = True
            out.append("let sent_time_resolution := time_resolution in")
        elif text == 'self._meta = deepcopy(meta)':
            continue
        elif text == 'version = extract_version(meta)':
            if not sent: bail(st, 'version before the request')
            have_version = True
        elif isinstance(st, ast.If) and not st.orelse and len(st.body) == 1 and isinstance(st.body[0], ast.Raise):
            if not have_version: bail(st, 'check before the version is known')
            if 'not compliant' not in raise_text(st.body[0]): bail(st, 'unknown error')
            out.append(f"if {cond(st.test, {'forced_old_api'}, set())} then (sent_time_resolution, None) else")
        elif text == 'return version' and have_version:
            out.append("(sent_time_resolution, Some version)"); returned = True
        else:
            bail(st, 'statement: ' + text[:80])
    if not returned: bail(fn, 'no return')
    if not any('forced_old_api' in o for o in out[:2]) and any('forced_old_api' in o for o in out): bail(fn, 'forced_old_api undefined')
    return "Definition local_init (compliant : bool) (version : list nat) : bool * option (list nat) :=\n  " + "\n  ".join(out) + ".\n"


REMOTE_INIT = "self._meta = await self.send(['init', (sid,), kwargs])\nreturn extract_version(self._meta)"
EXTRACT_VERSION = "if 'api_version' not in meta:\n    return [1]\nelse:\n    return list(map(int, meta['api_version'].split('.')))"
ADAPTER_BASE_SEND = 'return await self._out.send(request)'


def gen_send(fn, name):
    """try: func_name, A, K = request; if func_name == "<f>": <action> / except ValueError: pass / return await self._out.send(request)"""
    if [a.arg for a in fn.args.args] != ['self', 'request']: bail(fn, 'signature')
    body = strip_doc(fn.body)
    if len(body) != 2 or ast.unparse(body[1]) != ADAPTER_BASE_SEND: bail(fn, 'shape of send')
    tr = body[0]
    if not (isinstance(tr, ast.Try) and len(tr.handlers) == 1 and ast.unparse(tr.handlers[0].type) == 'ValueError'
            and ast.unparse(tr.handlers[0].body[0]) == 'pass' and len(tr.handlers[0].body) == 1 and not tr.orelse and not tr.finalbody and len(tr.body) == 2): bail(tr, 'try')
    unpack, test = tr.body
    if not (isinstance(unpack, ast.Assign) and isinstance(unpack.targets[0], ast.Tuple) and len(unpack.targets[0].elts) == 3
            and ast.unparse(unpack.value) == 'request' and ast.unparse(unpack.targets[0].elts[0]) == 'func_name'): bail(unpack, 'unpacking')
    args_name, kwargs_name = (ast.unparse(x) for x in unpack.targets[0].elts[1:])
    if not (isinstance(test, ast.If) and not test.orelse and len(test.body) == 1 and isinstance(test.test, ast.Compare) and len(test.test.ops) == 1
            and isinstance(test.test.ops[0], ast.Eq) and ast.unparse(test.test.left) == 'func_name' and isinstance(test.test.comparators[0], ast.Constant)): bail(test, 'test')
    which = test.test.comparators[0].value
    act = test.body[0]
    if which == 'setup_done': pat = 'RSetupDone'
    elif which == 'step': pat = 'RStep n'
    else: bail(test, 'request name ' + repr(which))
    if isinstance(act, ast.Return) and ast.unparse(act) == 'return None':
        return f"Definition {name} (req : request) : option request :=\n  match req with {pat} => None | _ => Some req end.\n"
    if isinstance(act, ast.Assign) and ast.unparse(act.targets[0]) == 'request' and isinstance(act.value, ast.Tuple) and len(act.value.elts) == 3 \
            and which == 'step' and isinstance(act.value.elts[0], ast.Constant) and act.value.elts[0].value == 'step' and ast.unparse(act.value.elts[2]) == kwargs_name:
        a = act.value.elts[1]
        if not (isinstance(a, ast.Subscript) and ast.unparse(a.value) == args_name and isinstance(a.slice, ast.Slice) and a.slice.step is None
                and isinstance(a.slice.lower, ast.Constant) and a.slice.lower.value == 0 and isinstance(a.slice.upper, ast.Constant)
                and isinstance(a.slice.upper.value, int) and 0 <= a.slice.upper.value < 100): bail(a, 'slice of the arguments')
        return (f"Definition {name} (req : request) : option request :=\n"
                f"  let req := match req with RStep n => RStep (Nat.min n {a.slice.upper.value}) | _ => req end in Some req.\n")
    bail(act, 'action')


def gen_meta(fn):
    body = strip_doc(fn.body)
    if [ast.unparse(s) for s in body] != ["self._out.meta.setdefault('type', 'time-based')", 'return self._out.meta']: bail(fn, 'meta property')
    return ("Definition v3_meta_type (given : option nat) : option nat :=\n"
            "  match given with Some t => Some t | None => Some 0 (* 'time-based' *) end.\n")


def literal(fn, text, what):
    if '\n'.join(ast.unparse(s) for s in strip_doc(fn.body)) != text: bail(fn, what + ' differs from the text the model assumes')


def main():
    repo, outdir = sys.argv[1], sys.argv[2]
    ad = ast.parse(open(os.path.join(repo, 'mosaik', 'adapters.py')).read())
    px = ast.parse(open(os.path.join(repo, 'mosaik', 'proxies.py')).read())
    parts = [gen_init_and_get_adapter(find(ad, None, 'init_and_get_adapter')),
             gen_local_init(find(px, 'LocalProxy', 'init')),
             gen_send(find(ad, 'V3ToV2Adapter', 'send'), 'v3_send'),
             gen_send(find(ad, 'V2ToV1Adapter', 'send'), 'v2_send'),
             gen_meta(find(ad, 'V3ToV2Adapter', 'meta'))]
    literal(find(px, 'BaseProxy' if False else 'RemoteProxy', 'init'), REMOTE_INIT, 'RemoteProxy.init')
    literal(find(px, None, 'extract_version'), EXTRACT_VERSION, 'extract_version')
    base = find(ad, 'Adapter', 'send')
    literal(base, ADAPTER_BASE_SEND, 'Adapter.send')
    # the adapters must not override anything else that reaches the simulator
    for cls, allowed in (('V3ToV2Adapter', {'send', 'meta'}), ('V2ToV1Adapter', {'send'})):
        c = [n for n in ad.body if isinstance(n, ast.ClassDef) and n.name == cls][0]
        if [ast.unparse(b) for b in c.bases] != ['Adapter']: bail(c, 'base class')
        names = {n.name for n in c.body if isinstance(n, (ast.FunctionDef, ast.AsyncFunctionDef))}
        if names != allowed: bail(c, f'methods {sorted(names)}')
    text = '\n'.join(["(* generated by harness/py2coq_adapt.py from mosaik/adapters.py and mosaik/proxies.py -- do not edit; regenerated on every run *)",
                      "From Coq Require Import List Bool Arith.", "Import ListNotations.",
                      "From MV Require Import Ext.Adapters Ext.GenAdapt.", ""] + parts)
    path = os.path.join(outdir, 'AdaptFns.v')
    if not os.path.exists(path) or open(path).read() != text:
        open(path, 'w').write(text)


if __name__ == '__main__':
    try:
        main()
    except Unsupported as e:
        sys.stderr.write(f'py2coq_adapt: unsupported construct: {e}\n'); sys.exit(2)
    except SyntaxError as e:
        sys.stderr.write(f'py2coq_adapt: {e}\n'); sys.exit(2)
