#!/usr/bin/env python3
"""Fail-closed translator for mosaik/scenario.py:connect_interval -> Coq (Gen/ConnectInterval.v).

A statement-level translator for the straight-line Python subset that function uses: tuple-unpacking assignment from a
known helper call, integer arithmetic and comparisons, truthiness of ints and of optional groups, list construction
`[c] * n`, item assignment, `if` without `else` whose body assigns / asserts / raises, `assert`, `raise ScenarioError`,
`return TieredInterval(*tiers, cutoff=..., pre_length=...)`.  SimGroup objects are group ids in a group table `gt`;
`g.depth`, `g.parent` and `group_path(a, b)` are the hand-written Static/Groups.v functions (wrapped in Prelude/PyG.v) -
they are NOT translated (loops over a pointer structure), which DESIGN.md records.
Anything else makes the translator exit with status 2 (a broken tie).
Usage: py2coq_conn.py <repo> <outdir>
"""
import ast, sys, os


class Unsupported(Exception):
    pass


def bail(node, why=''):
    raise Unsupported(f"line {getattr(node, 'lineno', '?')}: {type(node).__name__} {why}")


INT, BOOL, GROUP, OPTGROUP, ZLIST = 'int', 'bool', 'group', 'optgroup', 'zlist'


class Tr:
    def __init__(self, fdef):
        self.f = fdef
        self.env = {}

    # ---------- expressions ----------
    def ty(self, e):
        if isinstance(e, ast.Constant):
            if isinstance(e.value, bool): return BOOL
            if isinstance(e.value, int): return INT
            bail(e, 'constant')
        if isinstance(e, ast.Name):
            if e.id in self.env: return self.env[e.id]
            bail(e, 'unknown name ' + e.id)
        if isinstance(e, ast.Attribute):
            t = self.ty(e.value)
            if t == GROUP and e.attr == 'depth': return INT
            if t == GROUP and e.attr == 'parent': return OPTGROUP
            bail(e, f'attribute {e.attr} of {t}')
        if isinstance(e, ast.BinOp):
            l, r = self.ty(e.left), self.ty(e.right)
            if isinstance(e.op, (ast.Add, ast.Sub)) and l == r == INT: return INT
            if isinstance(e.op, ast.Mult) and l == ZLIST and r == INT: return ZLIST
            bail(e, 'binop')
        if isinstance(e, ast.List):
            if all(self.ty(x) == INT for x in e.elts): return ZLIST
            bail(e, 'list elements')
        if isinstance(e, (ast.Compare, ast.BoolOp)): return BOOL
        if isinstance(e, ast.UnaryOp) and isinstance(e.op, ast.Not): return BOOL
        bail(e, 'expression')

    def ex(self, e):
        if isinstance(e, ast.Constant):
            if isinstance(e.value, bool): return 'true' if e.value else 'false'
            if isinstance(e.value, int): return f'({e.value})%Z'
        if isinstance(e, ast.Name):
            self.ty(e); return e.id
        if isinstance(e, ast.Attribute):
            t = self.ty(e)
            if e.attr == 'depth': return f'(py_depth gt {self.ex(e.value)})'
            if e.attr == 'parent': return f'(parent gt {self.ex(e.value)})'
        if isinstance(e, ast.BinOp):
            t = self.ty(e)
            if t == INT:
                op = '+' if isinstance(e.op, ast.Add) else '-'
                return f'({self.ex(e.left)} {op} {self.ex(e.right)})%Z'
            if t == ZLIST: return f'(py_tuple_mul {self.ex(e.left)} {self.ex(e.right)})'
        if isinstance(e, ast.List):
            self.ty(e); return '[' + '; '.join(self.ex(x) for x in e.elts) + ']'
        if isinstance(e, (ast.Compare, ast.BoolOp, ast.UnaryOp)):
            return self.truth(e)
        bail(e, 'expression')

    def truth(self, e):
        """Python truthiness of e as a Coq bool"""
        if isinstance(e, ast.BoolOp):
            op = ' && ' if isinstance(e.op, ast.And) else ' || '
            return '(' + op.join(self.truth(v) for v in e.values) + ')'
        if isinstance(e, ast.UnaryOp) and isinstance(e.op, ast.Not):
            return f'(negb {self.truth(e.operand)})'
        if isinstance(e, ast.Compare):
            if len(e.ops) != 1: bail(e, 'chained comparison')
            l, r = e.left, e.comparators[0]
            if self.ty(l) != INT or self.ty(r) != INT: bail(e, 'comparison of non-ints')
            op = {ast.GtE: '>=?', ast.LtE: '<=?', ast.Gt: '>?', ast.Lt: '<?', ast.Eq: '=?'}.get(type(e.ops[0]))
            if op is None:
                if isinstance(e.ops[0], ast.NotEq): return f'(negb ({self.ex(l)} =? {self.ex(r)})%Z)'
                bail(e, 'comparison operator')
            return f'({self.ex(l)} {op} {self.ex(r)})%Z'
        t = self.ty(e)
        if t == BOOL: return self.ex(e)
        if t == INT: return f'(negb ({self.ex(e)} =? 0)%Z)'
        if t == OPTGROUP: return f'(match {self.ex(e)} with Some _ => true | None => false end)'
        if t == ZLIST: return f'(negb (Nat.eqb (length {self.ex(e)}) 0))'
        bail(e, 'truthiness of ' + str(t))

    # ---------- statements ----------
    def assigned(self, stmts):
        out = []
        for s in stmts:
            if isinstance(s, ast.Assign):
                for t in s.targets:
                    if isinstance(t, ast.Name): out.append(t.id)
                    elif isinstance(t, ast.Tuple): out += [x.id for x in t.elts if isinstance(x, ast.Name) and x.id != '_']
                    elif isinstance(t, ast.Subscript) and isinstance(t.value, ast.Name): out.append(t.value.id)
                    else: bail(t, 'assignment target')
            elif isinstance(s, ast.If):
                out += self.assigned(s.body) + self.assigned(s.orelse)
        return sorted(set(out))

    def block(self, stmts, k):
        """translate stmts; k() gives the Coq term for what follows (None: the block must end in return/raise)"""
        if not stmts:
            if k is None: raise Unsupported('function may fall off its end')
            return k()
        s, rest = stmts[0], stmts[1:]
        cont = lambda: self.block(rest, k)
        if isinstance(s, ast.Expr) and isinstance(s.value, ast.Constant) and isinstance(s.value.value, str):
            return cont()                                   # docstring
        if isinstance(s, ast.Assign):
            if len(s.targets) != 1: bail(s, 'multiple targets')
            t = s.targets[0]
            if isinstance(t, ast.Tuple):
                v = s.value
                if not (isinstance(v, ast.Call) and isinstance(v.func, ast.Name) and v.func.id == 'group_path' and len(v.args) == 2 and not v.keywords):
                    bail(s, 'tuple assignment from something else than group_path(a, b)')
                if [self.ty(a) for a in v.args] != [GROUP, GROUP]: bail(s, 'group_path arguments')
                if len(t.elts) != 3 or not all(isinstance(x, ast.Name) for x in t.elts): bail(s, 'group_path result pattern')
                names = [x.id for x in t.elts]
                for n, ty in zip(names, (INT, INT, GROUP)):
                    if n != '_': self.env[n] = ty
                pat = ', '.join(names)
                return f"cbind (py_group_path gt {self.ex(v.args[0])} {self.ex(v.args[1])}) (fun '({pat}) =>\n  {cont()})"
            if isinstance(t, ast.Name):
                ty = self.ty(s.value); val = self.ex(s.value)
                if t.id in self.env and self.env[t.id] != ty: bail(s, 'type change of ' + t.id)
                self.env[t.id] = ty
                return f"let {t.id} := {val} in\n  {cont()}"
            if isinstance(t, ast.Subscript):
                if not (isinstance(t.value, ast.Name) and self.ty(t.value) == ZLIST and self.ty(t.slice) == INT and self.ty(s.value) == INT):
                    bail(s, 'item assignment')
                n = t.value.id
                return f"cbind (py_setitem {n} {self.ex(t.slice)} {self.ex(s.value)}) (fun {n} =>\n  {cont()})"
            bail(s, 'assignment')
        if isinstance(s, ast.Assert):
            return f"(if {self.truth(s.test)} then\n  {cont()}\n  else CErr CAssert)"
        if isinstance(s, ast.Raise):
            exc = s.exc
            name = exc.func.id if isinstance(exc, ast.Call) and isinstance(exc.func, ast.Name) else (exc.id if isinstance(exc, ast.Name) else None)
            err = {'ScenarioError': 'CScenarioError', 'ValueError': 'CValueError', 'AssertionError': 'CAssert'}.get(name)
            if err is None: bail(s, 'raise of ' + str(name))
            return f"CErr {err}"
        if isinstance(s, ast.Return):
            v = s.value
            if not (isinstance(v, ast.Call) and isinstance(v.func, ast.Name) and v.func.id == 'TieredInterval'): bail(s, 'return value')
            if not (len(v.args) == 1 and isinstance(v.args[0], ast.Starred) and self.ty(v.args[0].value) == ZLIST): bail(s, 'TieredInterval positional arguments')
            kws = {k.arg: k.value for k in v.keywords}
            if set(kws) - {'cutoff', 'pre_length'}: bail(s, 'TieredInterval keywords')
            def opt(name):
                if name not in kws: return 'None'
                if self.ty(kws[name]) != INT: bail(s, name + ' not an int')
                return f'(Some {self.ex(kws[name])})'
            return f"lift (TieredInterval_new {self.ex(v.args[0].value)} {opt('cutoff')} {opt('pre_length')})"
        if isinstance(s, ast.If):
            if s.orelse: bail(s, 'else branch')
            c = self.truth(s.test)
            vs = self.assigned(s.body)
            for n in vs:
                if n not in self.env: bail(s, f'{n} first assigned inside an if')
            saved = dict(self.env)
            if not vs:
                # the body only checks: asserts / raises
                body = self.block(s.body, lambda: 'COk tt')
                self.env = saved
                return f"cbind (if {c} then\n  {body}\n  else COk tt) (fun _ =>\n  {cont()})"
            tup = '(' + ', '.join(vs) + ')' if len(vs) > 1 else vs[0]
            pat = "'" + tup if len(vs) > 1 else vs[0]
            body = self.block(s.body, lambda: f'COk {tup}')
            self.env = saved
            return f"cbind (if {c} then\n  {body}\n  else COk {tup}) (fun {pat} =>\n  {cont()})"
        bail(s, 'statement')


def translate(src):
    mod = ast.parse(src)
    fdef = next((n for n in mod.body if isinstance(n, ast.FunctionDef) and n.name == 'connect_interval'), None)
    if fdef is None: raise Unsupported('connect_interval not found')
    a = fdef.args
    if a.vararg or a.kwarg or a.kwonlyargs or a.posonlyargs: raise Unsupported('parameter kinds')
    tr = Tr(fdef)
    params = []
    for arg in a.args:
        ann = ast.unparse(arg.annotation) if arg.annotation else None
        ty = {'SimGroup': GROUP, 'int': INT}.get(ann)
        if ty is None: raise Unsupported(f'parameter annotation {ann}')
        tr.env[arg.arg] = ty
        params.append(f"({arg.arg} : {'nat' if ty == GROUP else 'Z'})")
    defaults = [ast.unparse(d) for d in a.defaults]
    body = tr.block(fdef.body, None)
    return ("(* generated by harness/py2coq_conn.py from mosaik/scenario.py (connect_interval) -- do not edit; regenerated on every run *)\n"
            "From MV Require Import Prelude.Py Gen.TieredTime Static.Groups Prelude.PyG.\n\n"
            f"(* parameter defaults in the source: {', '.join(defaults)} *)\n"
            f"Definition connect_interval (gt : gtab) {' '.join(params)} : cres TieredInterval :=\n  {body}.\n")


def main():
    repo, outdir = sys.argv[1], sys.argv[2]
    os.makedirs(outdir, exist_ok=True)
    try:
        out = translate(open(os.path.join(repo, 'mosaik', 'scenario.py')).read())
    except Unsupported as e:
        print('py2coq_conn: unsupported:', e, file=sys.stderr)
        sys.exit(2)
    path = os.path.join(outdir, 'ConnectInterval.v')
    if not os.path.exists(path) or open(path).read() != out:      # keep the time stamp when nothing changed (no rebuild)
        open(path, 'w').write(out)


if __name__ == '__main__':
    main()
