"""Shared driver of the scheduler-level checks (C01, C02, C03, C05, C07, C09, C10, C13, C16): proof obligations,
trace validation restricted to the discrepancy kinds the property is responsible for, and the property's monitor
on the implementation traces (which is also the search for a concrete failing input)."""
from __future__ import annotations
import collections, copy, json, os, random, time
from . import common, simlib, tracelib, gen, monitors

VARIANTS = [(True, True), (False, True), (True, False), (False, False)]


def corpus_cases(pid):
    d = os.path.join(common.CORPUS, pid)
    out = []
    if os.path.isdir(d):
        for f in sorted(os.listdir(d)):
            if f.endswith('.json'):
                out.append((f, json.load(open(os.path.join(d, f)))))
    return out


def run_one(case, model, lazy, cache, strategy, seed, script=None, fine=False, rev=False, instant=()):
    run = simlib.run_case(case, lazy=lazy, cache=cache, strategy=strategy, seed=seed, script=script, fine=fine, rev=rev, instant=instant)
    val = tracelib.validate(run, case, model, lazy, cache)
    return run, val


def monitor_run(monitor, case, run, val, model, lazy, cache):
    if run.world is None or run.build_error is not None:
        return []
    ctx = monitors.Ctx(case, model, cache)
    return monitor(ctx, run.log, lazy=lazy, cache=cache, case=case, outcome=('ok' if val.impl_kind == 'ok' else val.impl_kind),
                   outcome_kind=val.impl_kind, outcome_sim=val.impl_sim, maxloop=case.get('maxloop', 100), val=val)


def shrink(case, fails, budget=60):
    """greedy: drop edges / simulators' behaviour entries while the failure persists (fails(case) -> bool)"""
    best = case
    changed = True; tries = 0
    while changed and tries < budget:
        changed = False
        for k in range(len(best['edges'])):
            c = copy.deepcopy(best); del c['edges'][k]; tries += 1
            try:
                if fails(c): best = c; changed = True; break
            except Exception:
                pass
            if tries >= budget: break
    return best


def sched_property(out, info, tier, seed, pid, kinds, monitor, gen_opts=None, ncases=(120, 1500), variants=None, case_gen=None,
                   hyp=None, known_match=None, extra_obligations=(), nontrivial=None, features=None, extra_cases=()):
    """kinds: discrepancy kinds that break *this* property's correspondence.
    hyp(case, ctx) -> list of violated scenario hypotheses (cases outside the theorem: monitor failures there must
    match a known finding through known_match(failure text, case) -> finding id or None)."""
    rng = random.Random(seed * 7919 + 17)
    gen_opts = gen_opts or {}
    variants = variants or VARIANTS[:3]
    out.checker_cmd = f'make -C coq && coqc -Q coq MV coq/Props/{pid}.v'
    obl, log, broken = common.check_props_file(pid, info)
    for o in obl: out.add_obligation(o['name'], o['ok'], o['assumptions'])
    for name, rel in extra_obligations:
        out.add_obligation(name, info.vo_ok(rel), f'coq/{rel}.v compiled')
    bad = common.hygiene()
    out.add_obligation('hygiene: no Admitted/admit/Axiom/Parameter/Unset Guard in coq/', not bad, '; '.join(bad[:5]))
    if broken: out.notes.append('broken files: ' + ', '.join(broken) + '\n' + log[-1500:])
    if not info.driver_ok:
        out.add_obligation('correspondence: extracted model available', False, info.driver_msg[-300:])
    model = common.Model() if info.driver_ok else None
    n = ncases[0] if tier == 'quick' else ncases[1]
    t0 = time.time()
    stats = collections.Counter(); feat = collections.Counter(); outcomes = collections.Counter()
    mismatches, violations, known = [], [], collections.OrderedDict()
    nontriv = set(); validated = 0; evaluations = 0; samples = []
    hyp_excluded = collections.Counter()
    kf = {f['id']: f for f in common.known_findings(pid)}

    def handle(case, lazy, cache, strategy, sd, label, fine=False, rev=False, script=None, instant=()):
        nonlocal validated, evaluations
        if model is None:
            run = simlib.run_case(case, lazy=lazy, cache=cache, strategy=strategy, seed=sd, script=script, fine=fine, rev=rev, instant=instant)
            val = tracelib.Validation(); val.impl_outcome = run.outcome; val.impl_kind, val.impl_sim = tracelib.classify_outcome(run)
        else:
            run, val = run_one(case, model, lazy, cache, strategy, sd, script=script, fine=fine, rev=rev, instant=instant)
        evaluations += 1
        outcomes[val.impl_kind] += 1
        flags = dict(lazy=lazy, cache=cache, strategy=strategy, seed=sd, fine=fine, rev=rev, instant=instant if isinstance(instant, str) else sorted(instant))
        mine = [d for d in val.disc if d['kind'] in kinds or any(d['kind'].startswith(k[:-1]) for k in kinds if k.endswith('*'))]
        fails = []
        fid = None
        if model is not None and monitor is not None:
            fails = monitor_run(monitor, case, run, val, model, lazy, cache)
            if fails:
                hv = hyp(case, monitors.Ctx(case, model, cache)) if hyp else []
                fid = known_match(fails[0], case, hv) if known_match else None
                if not (fid and fid in kf and kf[fid]['status'] == 'known'): fid = None
        if fid:
            # the implementation's failure is the listed known finding: it is not a failure of the correspondence
            mine = [d for d in mine if not d['kind'].startswith('impl_err:')]
        if model is not None:
            validated += 1
            if mine:
                mismatches.append(dict(kind='trace', label=label, case=case, flags=flags, schedule=[list(k) for k in run.opened],
                                       discrepancies=mine[:3], impl_outcome=val.impl_outcome[:200]))
        if model is not None and monitor is not None:
            if fails:
                rec = dict(kind='trace', label=label, case=case, flags=flags, schedule=[list(k) for k in run.opened],
                           observed=fails[:3], impl_outcome=val.impl_outcome[:200], violated_hypotheses=hv)
                if fid:
                    known.setdefault(fid, rec)
                else:
                    violations.append(rec)
            elif hyp:
                for h in hyp(case, monitors.Ctx(case, model, cache)): hyp_excluded[h] += 1
        if nontrivial and run.world is not None and nontrivial(case, run, val):
            nontriv.add(json.dumps([case, lazy, cache], sort_keys=True, default=str))
        if features:
            for f in features(case, run, val): feat[f] += 1
        if len(samples) < 2 and run.world is not None and val.impl_kind == 'ok':
            samples.append(dict(case=case, flags=flags, first_events=[str(l)[:160] for l in run.log[:6]], n_events=len(run.log)))
        return run, val

    for name, rec in corpus_cases(pid):
        f = rec.get('flags', {})
        handle(rec['case'], f.get('lazy', True), f.get('cache', True), f.get('strategy', 'random'), f.get('seed', 0), 'corpus:' + name,
               fine=f.get('fine', False), rev=f.get('rev', False), script=rec.get('schedule'), instant=f.get('instant', ()))
    # re-confirm the witnesses of the listed known findings of this property
    for fid, fnd in kf.items():
        if fnd.get('status') != 'known' or not isinstance(fnd.get('witness'), str): continue
        wp = os.path.join(common.VERIF, fnd['witness'])
        if not os.path.exists(wp) or model is None or monitor is None: continue
        rec = json.load(open(wp)); f = rec.get('flags', {})
        run_w, val_w = run_one(rec['case'], model, f.get('lazy', True), f.get('cache', True), f.get('strategy', 'random'), f.get('seed', 0), script=rec.get('schedule'))
        evaluations += 1
        fails_w = monitor_run(monitor, rec['case'], run_w, val_w, model, f.get('lazy', True), f.get('cache', True))
        hv_w = hyp(rec['case'], monitors.Ctx(rec['case'], model, f.get('cache', True))) if (hyp and fails_w) else []
        same = bool(fails_w) and (known_match is None or any(known_match(x, rec['case'], hv_w) == fid for x in fails_w))
        if same: known.setdefault(fid, dict(observed=fails_w[:2]))
        elif fails_w:
            # the witness fails, but not in the listed way: a different violation
            violations.append(dict(kind='trace', label='witness:' + fid, case=rec['case'], flags=f, schedule=rec.get('schedule'),
                                   observed=fails_w[:3], impl_outcome=val_w.impl_outcome[:200], violated_hypotheses=[]))
        else: out.notes.append(f'known finding {fid}: witness no longer reproduces')
    for (case, flags) in extra_cases:
        handle(case, flags.get('lazy', True), flags.get('cache', True), flags.get('strategy', 'random'), flags.get('seed', 0), 'extra',
               script=flags.get('script'))
    for k in range(n):
        crng = random.Random(seed * 1000003 + k)
        case = case_gen(crng, k) if case_gen else gen.gen_case(crng, **gen_opts)
        for vi, (lazy, cache) in enumerate(variants):
            strat = gen.pick_strategy(crng, case)
            fine = crng.random() < 0.15
            rev = crng.random() < 0.2
            r_ = crng.random()
            instant = 'all' if r_ < 0.1 else ([f'S{i}' for i in range(case['n']) if crng.random() < 0.5] if r_ < 0.3 else ())
            handle(case, lazy, cache, strat, seed * 100 + k * 10 + vi, f'gen:{seed}:{k}:{vi}', fine=fine, rev=rev, instant=instant)
        if tier == 'quick' and time.time() - t0 > 150: break
    # directed search: the correspondence broke but no run violated the property itself - look around the scenarios on
    # which model and implementation differ (same topology, fresh behaviours and schedules) for a concrete failing input
    searched = 0
    if model is not None and monitor is not None and mismatches and not violations:
        base = [m['case'] for m in mismatches[:6]]
        budget = float(os.environ.get('VERIF_SEARCH_BUDGET', 150 if tier == 'quick' else 1200))
        t1 = time.time(); srng = random.Random(seed * 31 + 5)
        while time.time() - t1 < budget and not violations and searched < 6000:
            c0 = base[searched % len(base)]
            c = gen.mutate_case(srng, c0) if searched >= len(base) else c0
            lazy, cache = srng.choice(variants)
            r_ = srng.random()
            strat = f"starve:S{srng.randrange(c['n'])}" if r_ < 0.5 else gen.pick_strategy(srng, c)
            r_ = srng.random()
            instant = 'all' if r_ < 0.1 else ([f'S{i}' for i in range(c['n']) if srng.random() < 0.5] if r_ < 0.3 else ())
            try:
                handle(c, lazy, cache, strat, seed * 100 + searched, f'search:{seed}:{searched}', instant=instant)
            except Exception as e:     # a mutated scenario the harness cannot build is not a finding
                out.notes.append(f'search case skipped: {type(e).__name__}: {e}'[:200])
            searched += 1
        out.notes.append(f'directed search around {len(base)} mismatching scenarios: {searched} runs, '
                         + ('found a failing input' if violations else 'no failing input'))
    if model is not None:
        model.close()
        out.add_obligation(f'correspondence: trace validation of the real scheduler against the extracted model ({", ".join(sorted(kinds))})',
                           not mismatches, f'{validated} runs replayed')
    for m in mismatches[:1]:
        out.notes.append('first correspondence failure: ' + json.dumps(m, default=str)[:3000])
    # a correspondence failure without a monitor failure is reported through out.broken (no-failing-input-found);
    # a monitor failure is a concrete failing input
    for v in violations[:1]:
        out.violations.append(v)
    for fid, rec in known.items():
        out.known_hits.append((kf[fid], rec['observed'][0][:200]))
    if mismatches and not violations:
        out.notes.append(json.dumps(mismatches[0], default=str)[:6000])
    out.coverage.update({
        'evaluations': evaluations, 'distinct_nontrivial': len(nontriv), 'traces_validated_against_impl': validated,
        'rule': 'seeded structured generator harness/gen.py (2-5 simulators, flat/one-level/sibling/nested groups, plain/time-shifted/weak/async connections, '
                'parallel connections, scripted behaviours incl. future output times) x configurations '
                f'{variants} x schedule strategies (random, oldest, newest, round-robin, starve-one, fine-grained, reversed start order); '
                'non-trivial = the property-specific mechanism was exercised (see nontrivial_rule)',
        'samples': samples, 'outcome_histogram': dict(outcomes), 'feature_histogram': dict(feat),
        'monitor_failures': len(violations), 'correspondence_mismatches': len(mismatches),
        'cases_outside_hypotheses': dict(hyp_excluded), 'directed_search_runs': searched, 'known_finding_hits': list(known)})
    return dict(mismatches=mismatches, violations=violations)


def replay_trace(path, pid, monitor, kinds):
    r = json.load(open(path))
    if r.get('kind') != 'trace':
        print(json.dumps(r, indent=1)[:3000]); print(f'obligation replay: re-run ./check {pid}'); return 1
    info = common.build()
    model = common.Model()
    f = r['flags']
    run, val = run_one(r['case'], model, f['lazy'], f['cache'], f.get('strategy', 'random'), f.get('seed', 0),
                       script=r.get('schedule'), fine=f.get('fine', False), rev=f.get('rev', False), instant=f.get('instant', ()))
    fails = monitor_run(monitor, r['case'], run, val, model, f['lazy'], f['cache']) if monitor else []
    mine = [d for d in val.disc if d['kind'] in kinds]
    print('implementation outcome:', val.impl_outcome[:200])
    for x in fails[:5]: print('monitor:', x)
    for d in mine[:5]: print('correspondence:', d['kind'], d['detail'])
    if fails or mine:
        print(f'VIOLATION property={pid} replay={path}')
        return 1
    print('no violation on replay')
    return 0
