#!/usr/bin/env python3
"""Fail-closed translator for the bulk connection helpers of mosaik/util.py -> Coq (Gen/BulkFns.v).

connect_many_to_one, connect_randomly, _connect_evenly and _connect_randomly are walked statement by statement, in source
order, over a fixed vocabulary; the state of each function is its local variables (dest_set, max_i, connects, pos, ...)
plus two observation variables: conns - the world.connect calls made, in order - and connected, the Python set `connected`
as the list of the elements added to it.  random.shuffle and random.randint are an oracle: the list of shuffled copies of
dest_set / of returned integers is an argument (an exhausted oracle or an integer outside randint's range is GOracle).
Entities are numbers.  max_connects is `option nat`, None standing for float("inf") (Ext/GenBulk.v: ge_inf, le_times_inf
give Python's comparisons with inf, including 0 * inf = nan).

Vocabulary (anything else -> exit status 2):
  skipped        connect = world.connect ; randint = random.randint ; docstrings
  set-up         connected: Set[Entity] = set() ; connects: Dict[Entity, int] = {} ; src_size, dest_size = len(src_set), len(dest_set) ;
                 pos = 0 ; max_i = len(dest_set) - 1 ; dest_set = list(dest_set)
  assertions     assert dest_set ; assert len(src_set) <= len(dest_set) * max_connects ; assert max_i >= 0
  while pos < src_size: random.shuffle(dest_set) ; for src, dest in zip(src_set[pos:], dest_set): <body> ; pos += dest_size
  for src in src_set: <body>
  body           connect(src, dest, *attrs) ; connected.add(dest) ; i = randint(0, max_i) ; dest = dest_set[i] ;
                 connects[dest] = connects.get(dest, 0) + 1 ; if connects[dest] >= max_connects: dest_set.remove(dest); max_i -= 1 ;
                 world.connect(src, dest, *attrs, async_requests=async_requests)
  return connected ; the if evenly / else dispatch of connect_randomly with its two calls
Usage: py2coq_bulk.py <repo> <outdir>
"""
import ast, os, sys


class Unsupported(Exception):
    pass


def bail(node, why=''):
    raise Unsupported(f"line {getattr(node, 'lineno', '?')}: {type(node).__name__} {why}")


def strip_doc(body):
    body = list(body)
    if body and isinstance(body[0], ast.Expr) and isinstance(body[0].value, ast.Constant) and isinstance(body[0].value.value, str): body = body[1:]
    return body


def fn(tree, name, args):
    f = [n for n in tree.body if isinstance(n, ast.FunctionDef) and n.name == name]
    if len(f) != 1: raise Unsupported(f'function {name} not found')
    got = [a.arg for a in f[0].args.args] + (['*' + f[0].args.vararg.arg] if f[0].args.vararg else []) + [a.arg for a in f[0].args.kwonlyargs]
    if got != args: bail(f[0], f'signature {got}')
    return f[0]


SKIP = {'connect = world.connect', 'randint = random.randint'}


def body_stmt(st, k, ctx):
    """one statement of a loop body; k: the Coq text of what follows"""
    t = ast.unparse(st)
    if t == 'connect(src, dest, *attrs)':
        ctx['connect'] = ctx.get('connect', 0) + 1
        return f"let conns := conns ++ [(src, dest)] in\n    {k}"
    if t == 'connected.add(dest)':
        return f"let connected := connected ++ [dest] in\n    {k}"
    if t == 'assert max_i >= 0':
        return f"if negb (max_i >=? 0)%Z then GAssert else\n    {k}"
    if t == 'i = randint(0, max_i)':
        ctx['i'] = True
        return f"match choices with [] => GOracle | i :: choices =>\n    if negb (Z.of_nat i <=? max_i)%Z then GOracle else\n    {k}\n    end"
    if t == 'dest = dest_set[i]':
        if not ctx.get('i'): bail(st, 'i used before randint')
        ctx['dest'] = True
        return f"match nth_error dest_set i with None => GIndexError | Some dest =>\n    {k}\n    end"
    if t == 'connects[dest] = connects.get(dest, 0) + 1':
        return f"let connects := dset connects dest (dget connects dest 0 + 1) in\n    {k}"
    if t == 'if connects[dest] >= max_connects:\n    dest_set.remove(dest)\n    max_i -= 1':
        return (f"let '(dest_set, max_i) := if ge_inf (dget connects dest 0) max_connects then (remove1 dest dest_set, (max_i - 1)%Z) else (dest_set, max_i) in\n    {k}")
    bail(st, 'loop body statement: ' + t[:80])


def block(stmts, k, ctx):
    """the statements are looked at in source order (the checks on ctx depend on it); each yields its text around a hole"""
    HOLE = '\0'
    parts = [body_stmt(st, HOLE, ctx) for st in stmts]
    text = k
    for p in reversed(parts):
        if p.count(HOLE) != 1: raise Unsupported('internal: hole')
        text = p.replace(HOLE, text)
    return text


def gen_randomly(f):
    body = strip_doc(f.body)
    pre = []; loop = None; after = []
    for st in body:
        if isinstance(st, ast.For):
            if loop is not None: bail(st, 'two loops')
            loop = st
        elif loop is None: pre.append(st)
        else: after.append(st)
    if loop is None or ast.unparse(loop.target) != 'src' or ast.unparse(loop.iter) != 'src_set' or loop.orelse: bail(f, 'for src in src_set')
    if [ast.unparse(s) for s in after] != ['return connected']: bail(f, 'return connected')
    ctx = {}
    inner = block(loop.body, "connect_randomly_loop choices rest dest_set max_i max_connects connects conns connected", ctx)
    if ctx.get('connect') != 1 or 'dest' in ctx and False: bail(loop, 'exactly one connect call per source')
    loop_def = ("Fixpoint connect_randomly_loop (choices src_set dest_set : list nat) (max_i : Z) (max_connects : option nat)\n"
                "    (connects : list (nat * nat)) (conns : list (nat * nat)) (connected : list nat) {struct src_set} : gres :=\n"
                "  match src_set with\n  | [] => GOk conns connected\n  | src :: rest =>\n    " + inner + "\n  end.\n")
    out = []; have = set()
    for st in pre:
        t = ast.unparse(st)
        if t in SKIP: continue
        if t == 'connected: Set[Entity] = set()': have.add('connected'); continue
        if t == 'connects: Dict[Entity, int] = {}': have.add('connects'); continue
        if t == 'assert len(src_set) <= len(dest_set) * max_connects':
            out.append("if negb (le_times_inf (length src_set) (length dest_set) max_connects) then GPrecondition else"); continue
        if t == 'max_i = len(dest_set) - 1':
            out.append("let max_i := (Z.of_nat (length dest_set) - 1)%Z in"); have.add('max_i'); continue
        bail(st, 'statement before the loop: ' + t[:80])
    if have != {'connected', 'connects', 'max_i'}: bail(f, f'set-up incomplete: {sorted(have)}')
    main = ("Definition connect_randomly_uneven_gen (choices src_set dest_set : list nat) (max_connects : option nat) : gres :=\n  "
            + "\n  ".join(out) + "\n  connect_randomly_loop choices src_set dest_set max_i max_connects [] [] [].\n")
    return loop_def + "\n" + main


def gen_evenly(f):
    body = strip_doc(f.body)
    texts = [ast.unparse(s) for s in body if ast.unparse(s) not in SKIP]
    stmts = [s for s in body if ast.unparse(s) not in SKIP]
    if len(stmts) != 5 or texts[0] != 'connected: Set[Entity] = set()' or texts[1] != 'src_size, dest_size = (len(src_set), len(dest_set))' \
            or texts[2] != 'pos = 0' or texts[4] != 'return connected': bail(f, 'shape of _connect_evenly: ' + ' | '.join(t[:40] for t in texts))
    w = stmts[3]
    if not (isinstance(w, ast.While) and ast.unparse(w.test) == 'pos < src_size' and not w.orelse and len(w.body) == 3): bail(w, 'while pos < src_size')
    sh, fo, inc = w.body
    if ast.unparse(sh) != 'random.shuffle(dest_set)': bail(sh, 'shuffle')
    if not (isinstance(fo, ast.For) and ast.unparse(fo.target) == '(src, dest)' and ast.unparse(fo.iter) == 'zip(src_set[pos:], dest_set)' and not fo.orelse): bail(fo, 'for over zip')
    if ast.unparse(inc) != 'pos += dest_size': bail(inc, 'pos += dest_size')
    ctx = {}
    inner = block(fo.body, "(conns, connected)", ctx)
    if ctx.get('connect') != 1: bail(fo, 'exactly one connect call per pair')
    if 'match' in inner or 'GAssert' in inner: bail(fo, 'a statement that may fail inside the round')
    return ("Definition connect_evenly_round (pairs : list (nat * nat)) (conns : list (nat * nat)) (connected : list nat) : list (nat * nat) * list nat :=\n"
            "  fold_left (fun st (sd : nat * nat) => let '(conns, connected) := st in let '(src, dest) := sd in\n    " + inner + ") pairs (conns, connected).\n\n"
            "Fixpoint connect_evenly_loop (fuel : nat) (shuffles : list (list nat)) (src_set : list nat) (src_size dest_size pos : nat)\n"
            "    (conns : list (nat * nat)) (connected : list nat) : gres :=\n"
            "  if pos <? src_size then\n"
            "    match fuel, shuffles with\n"
            "    | S fuel, dest_set :: shuffles =>       (* random.shuffle(dest_set) *)\n"
            "        let '(conns, connected) := connect_evenly_round (zip (skipn pos src_set) dest_set) conns connected in\n"
            "        connect_evenly_loop fuel shuffles src_set src_size dest_size (pos + dest_size) conns connected\n"
            "    | _, _ => GOracle\n"
            "    end\n"
            "  else GOk conns connected.\n\n"
            "Definition connect_evenly_gen (fuel : nat) (shuffles : list (list nat)) (src_set dest_set : list nat) : gres :=\n"
            "  let src_size := length src_set in let dest_size := length dest_set in let pos := 0 in\n"
            "  connect_evenly_loop fuel shuffles src_set src_size dest_size pos [] [].\n")


def gen_public(f):
    body = strip_doc(f.body)
    texts = [ast.unparse(s) for s in body]
    want = ['dest_set = list(dest_set)', 'assert dest_set',
            'if evenly:\n    connected = _connect_evenly(world, src_set, dest_set, *attrs)\nelse:\n    connected = _connect_randomly(world, src_set, dest_set, *attrs, max_connects=max_connects)',
            'return connected']
    if texts != want: bail(f, 'connect_randomly differs from the text the translator knows: ' + ' | '.join(t[:50] for t in texts))
    d = [ast.unparse(x) for x in f.args.kw_defaults]
    if d != ['True', "float('inf')"]: bail(f, f'defaults {d}')
    return ("Definition connect_randomly_gen (evenly : bool) (fuel : nat) (shuffles : list (list nat)) (choices src_set dest_set : list nat) (max_connects : option nat) : gres :=\n"
            "  match dest_set with [] => GAssert | _ =>\n"
            "  if evenly then connect_evenly_gen fuel shuffles src_set dest_set\n"
            "  else connect_randomly_uneven_gen choices src_set dest_set max_connects\n  end.\n")


def gen_many(f):
    body = strip_doc(f.body)
    if len(body) != 1 or ast.unparse(body[0]) != 'for src in src_set:\n    world.connect(src, dest, *attrs, async_requests=async_requests)': bail(f, 'connect_many_to_one')
    return ("Definition connect_many_to_one_gen (src_set : list nat) (dest : nat) : list (nat * nat) :=\n"
            "  fold_left (fun conns src => conns ++ [(src, dest)]) src_set [].\n")


def main():
    repo, outdir = sys.argv[1], sys.argv[2]
    tree = ast.parse(open(os.path.join(repo, 'mosaik', 'util.py')).read())
    parts = [gen_many(fn(tree, 'connect_many_to_one', ['world', 'src_set', 'dest', '*attrs', 'async_requests'])),
             gen_evenly(fn(tree, '_connect_evenly', ['world', 'src_set', 'dest_set', '*attrs'])),
             gen_randomly(fn(tree, '_connect_randomly', ['world', 'src_set', 'dest_set', '*attrs', 'max_connects'])),
             gen_public(fn(tree, 'connect_randomly', ['world', 'src_set', 'dest_set', '*attrs', 'evenly', 'max_connects']))]
    text = '\n'.join(["(* generated by harness/py2coq_bulk.py from mosaik/util.py -- do not edit; regenerated on every run *)",
                      "From Coq Require Import ZArith List Bool Arith.", "Import ListNotations.",
                      "From MV Require Import Ext.Util Ext.GenBulk.", ""] + parts)
    path = os.path.join(outdir, 'BulkFns.v')
    if not os.path.exists(path) or open(path).read() != text:
        open(path, 'w').write(text)


if __name__ == '__main__':
    try:
        main()
    except Unsupported as e:
        sys.stderr.write(f'py2coq_bulk: unsupported construct: {e}\n'); sys.exit(2)
    except SyntaxError as e:
        sys.stderr.write(f'py2coq_bulk: {e}\n'); sys.exit(2)
