#!/usr/bin/env python3
"""Fail-closed translator for scheduler.get_input_data, the data part of scheduler.get_outputs and
scheduler.prune_dataflow_cache -> Coq (Gen/InputData.v).

get_input_data is walked statement by statement, in source order.  The input dicts have three levels in Python (entity id,
attribute, source full id); the model has one entity per simulator, so the translator checks the three-level structure and
emits the two levels below the entity (Sched/Plane.v idata: attribute -> source simulator -> value).

Vocabulary (anything else -> exit status 2):
  assert sim.current_step is not None                                 skipped
  input_data = sim.inputs_from_set_data ; sim.inputs_from_set_data = {}
  merge_all(<three nested lambdas>, input_data, <copy of sim.persistent_inputs>)
        the three lambdas must be merge_all at the two outer levels and return ONE of their two arguments at the leaf; which one
        is translated (first = the value already in input_data wins)
        the copy is the comprehension {eid: {attr: dict(vals) for attr, vals in attrs.items()} for eid, attrs in sim.persistent_inputs.items()}
        (a copy of the three levels mosaik controls) or sim.persistent_inputs itself - aliasing is not modelled
  input_data = sim.timed_input_buffer.get_input(input_data, sim.current_step.time)      -> timed_get_input (Sched/GenData.v)
        TimedInputBuffer.get_input / add and SimRunner.get_output_for are compared literally with the text the model assumes
  for (src_sim, delay), dataflows in sim.pulled_inputs.items():
      cache = src_sim.get_output_for(sim.current_step.time - delay.tiers[0])
      for (src_eid, src_attr), (dest_eid, dest_attr) in dataflows:
          try: val = cache[src_eid][src_attr]  except KeyError: <logger.warning> ; val = None
          input_vals = input_data.setdefault(dest_eid, {}).setdefault(dest_attr, {})
          input_vals[FULL_ID % (src_sim.sid, src_eid)] = val
  merge_existing(<three nested lambdas>, sim.persistent_inputs, input_data)     (as above; second = the new input value wins)
  return input_data
merge_all / merge_existing are the generated ones of Gen/InternalUtil.v.
get_outputs (after the output-time test, which harness/py2coq_sched.py translates): the cache fill `if sim.outputs is not None:
sim.outputs[output_time] = data`, the push loop over sim.output_to_push with its try / except KeyError: pass around the value
read and the destination loop calling timed_input_buffer.add(output_time + time_shift.tiers[0], ...), and `sim.data = data`.
prune_dataflow_cache: compared statement by statement with the text the translator knows (generator expressions with defaults).
Usage: py2coq_data.py <repo> <outdir>
"""
import ast, os, sys


class Unsupported(Exception):
    pass


def bail(node, why=''):
    raise Unsupported(f"line {getattr(node, 'lineno', '?')}: {type(node).__name__} {why}")


def strip_doc(body):
    body = list(body)
    if body and isinstance(body[0], ast.Expr) and isinstance(body[0].value, ast.Constant) and isinstance(body[0].value.value, str): body = body[1:]
    return body


def nested_lambdas(e, helper):
    """lambda a, b: helper(lambda c, d: helper(lambda x, y: <x or y>, c, d), a, b)  ->  Coq term for the two inner levels"""
    def level(l, depth):
        if not (isinstance(l, ast.Lambda) and len(l.args.args) == 2 and not l.args.vararg and not l.args.kwonlyargs): bail(l, 'lambda with two arguments')
        a, b = (x.arg for x in l.args.args)
        if depth == 0:
            if isinstance(l.body, ast.Name) and l.body.id == a: return f"(fun {a} {b} => {a})"
            if isinstance(l.body, ast.Name) and l.body.id == b: return f"(fun {a} {b} => {b})"
            bail(l, 'leaf merger must return one of its arguments')
        c = l.body
        if not (isinstance(c, ast.Call) and isinstance(c.func, ast.Name) and c.func.id == helper and len(c.args) == 3 and not c.keywords
                and isinstance(c.args[1], ast.Name) and c.args[1].id == a and isinstance(c.args[2], ast.Name) and c.args[2].id == b): bail(l, f'{helper} of the two arguments, in order')
        return (level(c.args[0], depth - 1), a, b)
    r = level(e, 2)                 # entity level (dropped)
    inner, a, b = r
    leaf, c, d = inner
    return f"(fun {c} {d} => {helper} {leaf} {c} {d})"


COPY3 = '{eid: {attr: dict(vals) for attr, vals in attrs.items()} for eid, attrs in sim.persistent_inputs.items()}'
BUFFER_GET_INPUT = ("while len(self.input_queue) > 0 and self.input_queue[0][0] <= step:\n"
                    "    _, _, src_full_id, eid, attr, value = hq.heappop(self.input_queue)\n"
                    "    input_dict.setdefault(eid, {}).setdefault(attr, {})[src_full_id] = value\n"
                    "return input_dict")
BUFFER_ADD = ("src_full_id = f'{src_sid}.{src_eid}'\n"
              "hq.heappush(self.input_queue, (time, next(self.counter), src_full_id, dest_eid, dest_attr, value))")
BUFFER_INIT = "self.input_queue = []\nself.counter = itertools.count()"
GET_OUTPUT_FOR = ("assert self.outputs is not None\n"
                  "for data_time, value in reversed(self.outputs.items()):\n"
                  "    if data_time <= time:\n        return value\n"
                  "return {}")


def literal(tree, cls, name, text):
    c = [n for n in tree.body if isinstance(n, ast.ClassDef) and n.name == cls]
    if len(c) != 1: raise Unsupported(f'class {cls} not found')
    f = [n for n in c[0].body if isinstance(n, (ast.FunctionDef, ast.AsyncFunctionDef)) and n.name == name]
    if len(f) != 1: raise Unsupported(f'{cls}.{name} not found')
    got = '\n'.join(ast.unparse(s) for s in strip_doc(f[0].body))
    if got != text: bail(f[0], f'{cls}.{name} differs from the text the model assumes')


def pulled_loop(st):
    if not (isinstance(st, ast.For) and ast.unparse(st.target) == '((src_sim, delay), dataflows)' and ast.unparse(st.iter) == 'sim.pulled_inputs.items()' and not st.orelse and len(st.body) == 2): bail(st, 'loop over pulled_inputs')
    c, inner = st.body
    if ast.unparse(c) != 'cache = src_sim.get_output_for(sim.current_step.time - delay.tiers[0])': bail(c, 'cache lookup time')
    if not (isinstance(inner, ast.For) and ast.unparse(inner.target) == '((src_eid, src_attr), (dest_eid, dest_attr))' and ast.unparse(inner.iter) == 'dataflows' and not inner.orelse and len(inner.body) == 3): bail(inner, 'loop over dataflows')
    tr, sd, asg = inner.body
    if not (isinstance(tr, ast.Try) and len(tr.body) == 1 and ast.unparse(tr.body[0]) == 'val = cache[src_eid][src_attr]' and len(tr.handlers) == 1
            and ast.unparse(tr.handlers[0].type) == 'KeyError' and not tr.orelse and not tr.finalbody): bail(tr, 'cache read')
    h = tr.handlers[0].body
    if not (len(h) == 2 and isinstance(h[0], ast.Expr) and isinstance(h[0].value, ast.Call) and ast.unparse(h[0].value.func) == 'logger.warning' and ast.unparse(h[1]) == 'val = None'): bail(tr, 'KeyError handler')
    if ast.unparse(sd) != 'input_vals = input_data.setdefault(dest_eid, {}).setdefault(dest_attr, {})': bail(sd, 'setdefault')
    if ast.unparse(asg) != 'input_vals[FULL_ID % (src_sim.sid, src_eid)] = val': bail(asg, 'slot assignment')
    return ("let input_data := fold_left (fun input_data (g : (nat * Z) * list (attr * attr)) => let '((src_sim, delay), dataflows) := g in\n"
            "      let cache := get_output_for (outputs_of src_sim) (step - delay) in\n"
            "      fold_left (fun input_data (f : attr * attr) => let '(src_attr, dest_attr) := f in\n"
            "          let val := aget src_attr cache in          (* KeyError -> None *)\n"
            "          iset dest_attr src_sim val input_data) dataflows input_data) pulled_inputs input_data in")


def gen_put_outputs(fn):
    """the data part of scheduler.get_outputs: everything after the output-time test (which harness/py2coq_sched.py translates)"""
    body = strip_doc(fn.body)
    ifs = [s for s in body if isinstance(s, ast.If) and ast.unparse(s.test) == 'outattr']
    if len(ifs) != 1 or ifs[0].orelse: bail(fn, 'if outattr')
    inner = ifs[0].body
    k = [n for n, s in enumerate(inner) if isinstance(s, ast.If) and ast.unparse(s.test) == 'sim.last_step.time > output_time']
    if len(k) != 1: bail(fn, 'output-time test')
    rest = inner[k[0] + 1:]
    if len(rest) != 3: bail(fn, f'data part has {len(rest)} statements')
    c, loop, keep = rest
    if ast.unparse(c) != 'if sim.outputs is not None:\n    sim.outputs[output_time] = data': bail(c, 'cache fill')
    if ast.unparse(keep) != 'sim.data = data': bail(keep, 'sim.data')
    if not (isinstance(loop, ast.For) and ast.unparse(loop.target) == '((src_eid, src_attr), destinations)' and ast.unparse(loop.iter) == 'sim.output_to_push.items()' and not loop.orelse and len(loop.body) == 1): bail(loop, 'push loop')
    tr = loop.body[0]
    if not (isinstance(tr, ast.Try) and len(tr.body) == 2 and len(tr.handlers) == 1 and ast.unparse(tr.handlers[0].type) == 'KeyError' and ast.unparse(tr.handlers[0].body[0]) == 'pass'
            and len(tr.handlers[0].body) == 1 and not tr.orelse and not tr.finalbody): bail(tr, 'try / except KeyError: pass')
    v, f2 = tr.body
    if ast.unparse(v) != 'val = data[src_eid][src_attr]': bail(v, 'value read')
    if not (isinstance(f2, ast.For) and ast.unparse(f2.target) == '(dest_sim, time_shift, (dest_eid, dest_attr))' and ast.unparse(f2.iter) == 'destinations' and not f2.orelse and len(f2.body) == 1): bail(f2, 'destination loop')
    if ast.unparse(f2.body[0]) != 'dest_sim.timed_input_buffer.add(output_time + time_shift.tiers[0], sid, src_eid, dest_eid, dest_attr, val)': bail(f2.body[0], 'buffer add')
    return ("(* scheduler.get_outputs after the output-time test: cache fill (outputs exist iff the cache is on), then the pushes *)\n"
            "Definition put_outputs (use_cache : bool) (output_to_push : list (attr * list (nat * Z * attr))) (ds : dstate) (sid : nat) (output_time : Z) (data : odata) : dstate :=\n"
            "  let ds := if use_cache then set_output ds sid output_time data else ds in\n"
            "  fold_left (fun ds (p : attr * list (nat * Z * attr)) => let '(src_attr, destinations) := p in\n"
            "    match aget src_attr data with          (* try: val = data[src_eid][src_attr] ... except KeyError: pass *)\n"
            "    | None => ds\n"
            "    | Some val => fold_left (fun ds (dd : nat * Z * attr) => let '(dest_sim, time_shift, dest_attr) := dd in\n"
            "                    buffer_add ds dest_sim (output_time + time_shift) sid dest_attr val) destinations ds\n"
            "    end) output_to_push ds.\n")


def gen_prune(fn):
    body = strip_doc(fn.body)
    texts = [ast.unparse(s) for s in body]
    want = ['if not world.use_cache:\n    return',
            'max_shift = max((delay.tiers[0] for s in world.sims.values() for _, delay in s.pulled_inputs), default=0)',
            'min_cache_time = min((s.last_step.time for s in world.sims.values())) - max_shift',
            'for sim in world.sims.values():\n    if sim.outputs:\n        keep_from = max((time for time in sim.outputs if time <= min_cache_time), default=min_cache_time)\n'
            '        sim.outputs = {time: cache for time, cache in sim.outputs.items() if time >= keep_from}']
    if texts != want:
        k = next((i for i in range(min(len(texts), len(want))) if texts[i] != want[i]), min(len(texts), len(want)))
        bail(body[k] if k < len(body) else fn, 'prune_dataflow_cache differs from the text the translator knows')
    return ("(* scheduler.prune_dataflow_cache *)\n"
            "Definition prune_dataflow_cache (use_cache : bool) (sims : list nat) (pulled_inputs : nat -> list ((nat * Z) * list (attr * attr)))\n"
            "    (last_step_time : nat -> Z) (ds : dstate) : dstate :=\n"
            "  if negb use_cache then ds else\n"
            "  let max_shift := zmax_d (flat_map (fun s => map (fun g : (nat * Z) * list (attr * attr) => snd (fst g)) (pulled_inputs s)) sims) 0 in\n"
            "  let min_cache_time := zmin_d (map last_step_time sims) 0 - max_shift in\n"
            "  fun sim => let d := ds sim in\n"
            "    match outputs d with\n"
            "    | [] => d\n"
            "    | _ => let keep_from := zmax_d (filter (fun time => time <=? min_cache_time) (map fst (outputs d))) min_cache_time in\n"
            "           with_outputs d (filter (fun e : Z * odata => fst e >=? keep_from) (outputs d))\n"
            "    end.\n")


def gen_set_data(sm):
    """MosaikRemote.set_data and _assert_async_requests: the three nested loops are checked; one write (source entity, destination
    simulator, attribute, value) is emitted"""
    c = [n for n in sm.body if isinstance(n, ast.ClassDef) and n.name == 'MosaikRemote']
    if len(c) != 1: raise Unsupported('class MosaikRemote not found')
    def meth(name):
        f = [n for n in c[0].body if isinstance(n, (ast.FunctionDef, ast.AsyncFunctionDef)) and n.name == name]
        if len(f) != 1: raise Unsupported(f'MosaikRemote.{name} not found')
        return f[0]
    a = meth('_assert_async_requests')
    if [x.arg for x in a.args.args] != ['self', 'src_sim', 'dest_sim']: bail(a, 'signature')
    tests = []
    for st in strip_doc(a.body):
        if not (isinstance(st, ast.If) and not st.orelse and len(st.body) == 1 and isinstance(st.body[0], ast.Raise) and isinstance(st.body[0].exc, ast.Call)
                and ast.unparse(st.body[0].exc.func) == 'ScenarioError'): bail(st, 'assertion')
        t = ast.unparse(st.test)
        if t == 'dest_sim not in src_sim.successors': tests.append('negb (existsb (Nat.eqb dest_sim) successors)')
        elif t == 'dest_sim not in src_sim.successors_to_wait_for': tests.append('negb (existsb (Nat.eqb dest_sim) successors_to_wait_for)')
        else: bail(st, 'condition ' + t)
    if not tests: bail(a, 'no test')
    f = meth('set_data')
    if [x.arg for x in f.args.args] != ['self', 'data']: bail(f, 'signature')
    body = strip_doc(f.body)
    want = ("for src_full_id, dest in data.items():\n    for full_id, attributes in dest.items():\n        sid, eid = full_id.split(FULL_ID_SEP, 1)\n"
            "        src_sim = self.world.sims[sid]\n        self._assert_async_requests(src_sim, self.sim)\n"
            "        inputs = src_sim.inputs_from_set_data.setdefault(eid, {})\n        for attr, val in attributes.items():\n"
            "            inputs.setdefault(attr, {})[src_full_id] = val")
    if len(body) != 1 or ast.unparse(body[0]) != want: bail(f, 'set_data differs from the text the translator knows')
    return ("(* MosaikRemote._assert_async_requests (true = a ScenarioError is raised) and one write of MosaikRemote.set_data: the caller\n"
            "   self.sim writes val into attribute attr of the simulator whose async-requests tables are given, under the key src_full_id *)\n"
            "Definition async_requests_refused (successors successors_to_wait_for : list nat) (dest_sim : nat) : bool :=\n  "
            + " || ".join(tests) + ".\n"
            "Definition set_data_write (successors successors_to_wait_for : list nat) (inputs_from_set_data : idata) (caller src_full_id : nat) (attr : attr) (val : Z) : option idata :=\n"
            "  if async_requests_refused successors successors_to_wait_for caller then None\n"
            "  else Some (iset attr src_full_id (Some val) inputs_from_set_data).\n")


def main():
    repo, outdir = sys.argv[1], sys.argv[2]
    tree = ast.parse(open(os.path.join(repo, 'mosaik', 'scheduler.py')).read())
    sm = ast.parse(open(os.path.join(repo, 'mosaik', 'simmanager.py')).read())
    literal(sm, 'TimedInputBuffer', 'get_input', BUFFER_GET_INPUT)
    literal(sm, 'TimedInputBuffer', 'add', BUFFER_ADD)
    literal(sm, 'TimedInputBuffer', '__init__', BUFFER_INIT)
    literal(sm, 'SimRunner', 'get_output_for', GET_OUTPUT_FOR)
    f = [n for n in tree.body if isinstance(n, ast.FunctionDef) and n.name == 'get_input_data']
    if len(f) != 1: raise Unsupported('get_input_data not found')
    f = f[0]
    if [a.arg for a in f.args.args] != ['world', 'sim']: bail(f, 'signature')
    out = []; seen = []
    for st in strip_doc(f.body):
        t = ast.unparse(st)
        if t == 'assert sim.current_step is not None': continue
        if t == 'input_data = sim.inputs_from_set_data':
            if seen: bail(st, 'order')
            seen.append('start'); out.append("let input_data := inputs_from_set_data in"); continue
        if t == 'sim.inputs_from_set_data = {}':
            if seen != ['start']: bail(st, 'order')
            seen.append('clear'); out.append("let inputs_from_set_data := @nil (attr * list (nat * value)) in"); continue
        if isinstance(st, ast.Expr) and isinstance(st.value, ast.Call) and isinstance(st.value.func, ast.Name) and st.value.func.id in ('merge_all', 'merge_existing'):
            c = st.value
            if len(c.args) != 3 or c.keywords: bail(st, 'merge call')
            lam = nested_lambdas(c.args[0], c.func.id)
            a1, a2 = ast.unparse(c.args[1]), ast.unparse(c.args[2])
            if c.func.id == 'merge_all':
                if seen != ['start', 'clear'] or a1 != 'input_data' or a2 not in (COPY3, 'sim.persistent_inputs'): bail(st, 'merge of the persistent inputs into the input data')
                seen.append('merge_all'); out.append(f"let input_data := merge_all {lam} input_data persistent_inputs in"); continue
            if seen != ['start', 'clear', 'merge_all', 'buffer', 'pulled'] or a1 != 'sim.persistent_inputs' or a2 != 'input_data': bail(st, 'merge back into the persistent inputs')
            seen.append('merge_existing'); out.append(f"let persistent_inputs := merge_existing {lam} persistent_inputs input_data in"); continue
        if t == 'input_data = sim.timed_input_buffer.get_input(input_data, sim.current_step.time)':
            if seen != ['start', 'clear', 'merge_all']: bail(st, 'order')
            seen.append('buffer'); out.append("let '(input_data, input_queue) := timed_get_input input_queue input_data step in"); continue
        if isinstance(st, ast.For):
            if seen != ['start', 'clear', 'merge_all', 'buffer']: bail(st, 'order')
            seen.append('pulled'); out.append(pulled_loop(st)); continue
        if t == 'return input_data':
            if seen != ['start', 'clear', 'merge_all', 'buffer', 'pulled', 'merge_existing']: bail(st, 'order')
            seen.append('return'); out.append("(input_data, persistent_inputs, input_queue, inputs_from_set_data)"); continue
        bail(st, 'statement: ' + t[:80])
    if seen[-1:] != ['return']: bail(f, 'no return')
    text = '\n'.join(["(* generated by harness/py2coq_data.py from mosaik/scheduler.py (get_input_data) -- do not edit; regenerated on every run *)",
                      "From Coq Require Import ZArith List Bool Arith.", "Import ListNotations.",
                      "From MV Require Import Static.Build Sched.Plane Sched.GenData Gen.InternalUtil.", "Open Scope Z_scope.", "",
                      "(* the new values of: input_data (returned), sim.persistent_inputs, the timed input buffer's queue, sim.inputs_from_set_data *)",
                      "Definition get_input_data (inputs_from_set_data persistent_inputs : idata) (input_queue : list bufentry)",
                      "    (pulled_inputs : list ((nat * Z) * list (attr * attr))) (outputs_of : nat -> list (Z * odata)) (step : Z)",
                      "    : idata * idata * list bufentry * idata :=",
                      "  " + "\n  ".join(out) + ".", "",
                      gen_put_outputs([n for n in tree.body if isinstance(n, ast.AsyncFunctionDef) and n.name == 'get_outputs'][0]),
                      gen_prune([n for n in tree.body if isinstance(n, ast.FunctionDef) and n.name == 'prune_dataflow_cache'][0]),
                      gen_set_data(sm)])
    path = os.path.join(outdir, 'InputData.v')
    if not os.path.exists(path) or open(path).read() != text:
        open(path, 'w').write(text)


if __name__ == '__main__':
    try:
        main()
    except Unsupported as e:
        sys.stderr.write(f'py2coq_data: unsupported construct: {e}\n'); sys.exit(2)
    except SyntaxError as e:
        sys.stderr.write(f'py2coq_data: {e}\n'); sys.exit(2)
