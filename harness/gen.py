"""Structured generators of scheduler cases (DESIGN.md 2.5b). Every choice comes from the rng passed in."""
from __future__ import annotations
import random

GROUP_SHAPES = [
    [[]],                                  # flat
    [[], [0]],                             # one group
    [[], [0], [1]],                        # sibling groups
    [[], [0], [0, 0]],                     # nested
    [[], [0], [0, 0], [0, 1], [1]],        # nested + siblings
]


def common_prefix(a, b):
    n = 0
    for x, y in zip(a, b):
        if x != y: break
        n += 1
    return n


def gen_behaviour(rng, types, compliant_outputs=False, monotone=False):
    """scripted replies of every simulator (self-steps, outputs per (time, sub-step), future output times) and the initial events"""
    n = len(types)
    until = rng.randint(2, 8)
    beh = []
    for i in range(n):
        t = types[i]
        b = {'type': t}
        if t == 'time-based':
            b['step_size'] = rng.choice([1, 1, 2, 3])
            b['default_output'] = [None, ['po']]
        else:
            ss = {}
            for tt in range(until):
                if rng.random() < 0.35: ss[str(tt)] = tt + rng.randint(1, 3)
            b['self_steps'] = ss
            outs = {}
            for tt in range(until + 1):
                for k in range(5):
                    r = rng.random()
                    if t == 'event-based':
                        if r > 0.6: continue
                        attrs = ['eo']
                    else:
                        attrs = ['po', 'eo'] if r < 0.6 else ['po']
                        if not compliant_outputs and r > 0.93: attrs = ['eo']      # persistent attribute not produced
                    if k >= rng.choice([1, 2, 2, 3]) and 'eo' in attrs:
                        attrs = [x for x in attrs if x != 'eo']       # loops settle
                    elif 'eo' in attrs:
                        # sparse outputs: the second event attribute fires instead of / together with the first
                        r2 = rng.random()
                        if r2 < 0.25: attrs = [('e2' if x == 'eo' else x) for x in attrs]
                        elif r2 < 0.45: attrs = attrs + ['e2']
                    ot = None
                    if not monotone and rng.random() < 0.15: ot = tt + rng.randint(1, 3)
                    outs[f'{tt},{k}'] = [ot, attrs]
            b['outputs'] = outs
        beh.append(b)
    init = [[i, rng.randint(0, 2)] for i in range(n) if types[i] == 'event-based' and rng.random() < 0.7]
    # a delayed start: set_initial_event on a time-based or hybrid simulator replaces its automatic step at 0
    init += [[i, rng.randint(0, 3)] for i in range(n) if types[i] != 'event-based' and rng.random() < 0.15]
    # the same simulator named twice (one call per entity of a simulator is a common idiom): the last call decides, and a
    # repeated time is still one step.  (Own generator, so that the main stream is unchanged.)
    r2 = random.Random(until * 1009 + len(beh) * 31 + len(init) * 7 + sum(t for _, t in init))
    if init and r2.random() < 0.3:
        i0, t0 = r2.choice(init)
        init.append([i0, t0 if r2.random() < 0.6 else r2.randint(0, 3)])
    if monotone and rng.random() < 0.3:
        # forecasting producers: every output of a simulator is stamped a constant k steps into the future (still monotone)
        for b in beh:
            if b['type'] == 'time-based' or rng.random() < 0.5: continue
            kf = rng.choice([1, 2, 3])
            for key, spec in b['outputs'].items():
                spec[0] = int(key.split(',')[0]) + kf
    return until, beh, init


def gen_case(rng: random.Random, groups=True, malformed=False, asyncs=False, compliant_outputs=False, maxn=5,
             monotone=False, unique_slots=False, weak_ok=True, shifts=(1, 1, 1, 2, 3), clean=None, loops=False):
    if clean is not None and rng.random() < clean:
        compliant_outputs = monotone = unique_slots = True; weak_ok = False; do_clean = True
    else:
        do_clean = False
    n = rng.randint(2, maxn)
    types = [rng.choice(['time-based', 'event-based', 'hybrid']) for _ in range(n)]
    r = rng.random()
    if not groups or r < 0.4:
        shape = GROUP_SHAPES[0]
    elif r < 0.8:
        shape = rng.choice(GROUP_SHAPES[1:3])
    else:
        shape = rng.choice(GROUP_SHAPES[3:])
    grp = [list(rng.choice(shape)) if len(shape) > 1 and rng.random() < 0.75 else [] for _ in range(n)]
    edges = []
    m = rng.randint(1, 2 * n)
    seen_slots = set()
    for _ in range(m):
        a, b = rng.randrange(n), rng.randrange(n)
        if a == b and rng.random() < 0.85: continue
        in_common_group = common_prefix(grp[a], grp[b]) > 0
        kind = 'p'
        back = a >= b
        if back:
            r = rng.random()
            if r < 0.1: kind = 'p'      # feeds the cycle check
            elif in_common_group and weak_ok and r < 0.45: kind = 'w'
            else: kind = 'ts'
        else:
            r = rng.random()
            if r < 0.15: kind = 'ts'
            elif r < 0.25 and in_common_group and weak_ok: kind = 'w'
        srcs = {'time-based': ['po'], 'event-based': ['eo', 'eo', 'e2'], 'hybrid': ['po', 'eo', 'e2']}[types[a]]
        dsts = {'time-based': ['i'], 'event-based': ['ti', 'ti', 't2'], 'hybrid': ['i', 'ti', 't2']}[types[b]]
        sa = rng.choice(srcs); da = rng.choice(dsts)
        if sa in ('eo', 'e2') and da == 'i' and rng.random() < 0.85:
            if 'ti' in dsts: da = 'ti'
            elif 'po' in srcs: sa = 'po'
        if unique_slots and (a, sa, b, da) in seen_slots: continue
        seen_slots.add((a, sa, b, da))
        shift = rng.choice(shifts) if kind == 'ts' else 0
        needs_init = kind != 'p' and da == 'i'
        init = needs_init or (kind != 'p' and sa == 'po' and rng.random() < 0.5)
        e = dict(a=a, b=b, sa=sa, da=da, kind=kind, shift=shift, init=bool(init))
        if asyncs and kind == 'p' and not back and rng.random() < 0.5:
            e['async'] = True
        edges.append(e)
        # parallel connection between the same pair with a different delay (explicit generator feature)
        if rng.random() < (0.35 if unique_slots else 0.15):
            k2 = rng.choice(['ts', 'p'] + (['w'] if in_common_group and weak_ok else []))
            if k2 != kind:
                e2 = dict(e); e2.pop('async', None)
                if unique_slots:
                    # another slot: different source and destination attribute
                    alt_s = [x for x in srcs if x != sa]; alt_d = [x for x in dsts if x != da]
                    if not alt_s or not alt_d: continue
                    e2.update(sa=alt_s[0], da=alt_d[0])
                    if (a, e2['sa'], b, e2['da']) in seen_slots: continue
                    seen_slots.add((a, e2['sa'], b, e2['da']))
                e2.update(kind=k2, shift=rng.choice(shifts) if k2 == 'ts' else 0)
                e2['init'] = (k2 != 'p' and e2['da'] == 'i') or (k2 != 'p' and e2['sa'] == 'po' and rng.random() < 0.5)
                if rng.random() < 0.5: edges.insert(len(edges) - 1, e2)     # the larger delay may come first
                else: edges.append(e2)
    if do_clean:
        # data-flow hypotheses of C03: no initial data on event sources, one connection per initialised source attribute
        out = []
        for e in edges:
            if e['init'] and e['sa'] in ('eo', 'e2'):
                if types[e['b']] != 'time-based': e = dict(e, da='ti', init=False)
                else: continue
            out.append(e)
        inited = {(e['a'], e['sa']) for e in out if e['init']}
        edges = []
        seen = set()
        for e in out:
            k = (e['a'], e['sa'])
            if k in inited:
                plain_ok = types[e['a']] == 'time-based' and e['kind'] == 'p' and not e['init']
                if not plain_ok:
                    if k in seen or not e['init']: continue
                    seen.add(k)
            edges.append(e)
        edges = [e for e in edges if not (e['kind'] != 'p' and e['da'] == 'i' and not e['init'])]
    until, beh, init = gen_behaviour(rng, types, compliant_outputs, monotone)
    case = dict(n=n, types=types, grp=grp, edges=edges, until=until, beh=beh, init=init,
                maxloop=(rng.choice([1, 2, 3, 3]) if loops else rng.choice([100, 100, 100, 3, 2, 1])) if groups else 100)
    if asyncs:
        # agents write to their async predecessors during some steps
        for e in edges:
            if e.get('async'):
                sd = case['beh'][e['b']].setdefault('set_data', {})
                ins = {'time-based': ['i'], 'event-based': ['ti', 't2'], 'hybrid': ['i', 'ti', 't2']}[types[e['a']]]
                # a slot (attribute, writer) that no connection from the writer also feeds
                free = [x for x in ins if not any(f['a'] == e['b'] and f['b'] == e['a'] and f['da'] == x for f in edges)]
                if not free: continue
                nagents = rng.choice([1, 1, 2, 3])
                if rng.random() < 0.6: case['beh'][e['b']]['set_data_batched'] = True
                for tt in range(until):
                    for w in range(nagents):
                        if rng.random() < 0.5:
                            sd.setdefault(f'{tt},0', []).append([f"S{e['a']}", rng.choice(free), f"set{e['b']}.{w}@{tt}", w])
    if malformed:
        i = rng.randrange(n)
        tt = rng.randint(0, max(0, until - 1))
        kind = rng.choice(['step', 'step', 'time'])
        if kind == 'step':
            val = rng.choice([tt, tt - 1, 0, -1, 'float:1.5', 'str', None, True, False, tt])
            if val == 'str': val = 'soon'
        else:
            val = rng.choice([tt - 1, -1, tt - 2])
        case['beh'][i].setdefault('bad', {})[f'{tt},0'] = [kind, val]
        case['malformed'] = [i, tt, kind, val]
    return case


STRATEGIES = ['random', 'random', 'oldest', 'newest', 'rr']


def pick_strategy(rng, case):
    r = rng.random()
    if r < 0.25:
        return f"starve:S{rng.randrange(case['n'])}"
    return rng.choice(STRATEGIES)


def gen_loop_case(rng: random.Random):
    """same-time (weak) loops around the max_loop_iterations bound, in one group, nested groups or sibling sub-groups"""
    shape = rng.choice(['one', 'nested', 'siblings', 'mixed'])
    n = rng.choice([2, 2, 3])
    if shape == 'one': places = [[0]] * n
    elif shape == 'nested': places = [[0, 0]] * n
    elif shape == 'siblings': places = [[0, k % 2] for k in range(n)]
    else: places = [rng.choice([[0], [0, 0], [0, 1]]) for _ in range(n)]
    types = [rng.choice(['hybrid', 'event-based']) for _ in range(n)]
    driver = rng.random() < 0.5
    grp = [list(p) for p in places] + ([[]] if driver else [])
    if driver: types.append('time-based')
    edges = []
    for k in range(n - 1):
        edges.append(dict(a=k, b=k + 1, sa='eo', da='ti', kind='p', shift=0, init=False))
    edges.append(dict(a=n - 1, b=0, sa='eo', da='ti', kind='w', shift=0, init=False))
    if rng.random() < 0.3:
        # the port that closes the loop also kicks off the next time step (a second, time-shifted connection of the same
        # port to the same simulator)
        kick = dict(a=n - 1, b=0, sa='eo', da='t2', kind='ts', shift=1, init=False)
        if rng.random() < 0.5: edges.append(kick)
        else: edges.insert(len(edges) - 1, kick)
    if driver:
        edges.append(dict(a=n, b=0, sa='po', da='ti' if types[0] != 'time-based' else 'i', kind='p', shift=0, init=False))
    bound = rng.choice([1, 2, 3, 5])
    L = max(0, bound + rng.choice([-2, -1, 0, 1, 2]))
    until = rng.randint(1, 3)
    beh = []
    for i in range(n):
        outs = {}
        for tt in range(until):
            for k in range(bound + 4):
                attrs = (['eo'] if types[i] == 'event-based' else ['po', 'eo']) if k < L else ([] if types[i] == 'event-based' else ['po'])
                outs[f'{tt},{k}'] = [None, attrs]
        beh.append({'type': types[i], 'self_steps': {}, 'outputs': outs})
    if rng.random() < 0.4:
        # future-dated outputs from inside the loop (sub-step > 0) and self-steps demanding the same time again
        for i in range(n):
            for tt in range(until):
                if rng.random() < 0.5:
                    k = rng.randint(1, max(1, L))
                    at = beh[i]['outputs'][f'{tt},{min(k, bound + 3)}']
                    at[0] = tt + rng.choice([1, 1, 2]); at[1] = sorted(set(at[1]) | {'eo'})
                if rng.random() < 0.3:
                    beh[i]['self_steps'][str(tt)] = tt + rng.choice([1, 1, 2])
        until += rng.choice([0, 1, 3])
        for i in range(n):
            for tt in range(until):
                for k in range(bound + 4):
                    beh[i]['outputs'].setdefault(f'{tt},{k}', [None, [] if types[i] == 'event-based' else ['po']])
    if driver:
        beh.append({'type': 'time-based', 'step_size': 1, 'default_output': [None, ['po']]})
    init = [] if driver else [[0, 0]] if types[0] == 'event-based' else []
    if rng.random() < 0.35:
        # an ungrouped event-based listener behind the first loop member, triggered only by an output of time 0 (sparse): in
        # later time steps its progress has to follow the loop although nothing steps it
        k = len(types); types.append('event-based'); grp.append([])
        edges.append(dict(a=0, b=k, sa='e2', da='ti', kind='p', shift=0, init=False))
        o = beh[0]['outputs'].get('0,0')
        if o is not None: o[1] = sorted(set(o[1]) | {'e2'})
        beh.append({'type': 'event-based', 'self_steps': {}, 'outputs': {}, 'default_output': [None, []]})
    return dict(n=len(types), types=types, grp=grp, edges=edges, until=until, beh=beh, init=init, maxloop=bound, loop_len=L)


def mutate_case(rng: random.Random, case):
    """directed search around a scenario on which the correspondence broke: same topology (sometimes with an extra weak
    same-time loop inside a group, or with a duplicated connection reordered), fresh behaviours"""
    import copy
    c = copy.deepcopy(case)
    c.pop('malformed', None)
    types = c['types']
    until, beh, init = gen_behaviour(rng, types)
    if rng.random() < 0.6:
        # dense variant: every event output fires on both event attributes (more triggers per run)
        for b in beh:
            for spec in b.get('outputs', {}).values():
                if 'eo' in spec[1] or 'e2' in spec[1]:
                    spec[1] = sorted(set(spec[1]) | {'eo', 'e2'})
    c['until'], c['beh'], c['init'] = until, beh, init
    if rng.random() < 0.5 and len(c['edges']) > 2:
        # simpler topology: drop some connections (other paths often mask the one on which the two sides differ)
        keep = [e for e in c['edges'] if rng.random() < 0.65]
        if keep: c['edges'] = keep
        for b in beh: b.pop('set_data', None)
    r = rng.random()
    if r < 0.35:
        # a same-time loop inside the group of some grouped simulator
        grouped = [i for i in range(c['n']) if c['grp'][i] and types[i] != 'time-based']
        if grouped:
            i = rng.choice(grouped)
            mates = [j for j in grouped if j != i and common_prefix(c['grp'][i], c['grp'][j]) > 0]
            if mates and rng.random() < 0.6:
                j = rng.choice(mates)
                c['edges'].append(dict(a=i, b=j, sa='eo', da='ti', kind='p', shift=0, init=False))
                c['edges'].append(dict(a=j, b=i, sa='eo', da='ti', kind='w', shift=0, init=False))
            else:
                c['edges'].append(dict(a=i, b=i, sa='eo', da='ti', kind='w', shift=0, init=False))
    elif r < 0.5 and len(c['edges']) > 1:
        rng.shuffle(c['edges'])
    if rng.random() < 0.3:
        c['maxloop'] = rng.choice([100, 5, 3])
    return c


def gen_reentry_case(rng: random.Random):
    """non-convex group scenarios: a trigger path leaves a group and re-enters it (its delay resets the sub-step), in
    parallel with in-group connections and a weak same-time loop inside the group; sparse event outputs"""
    nm = rng.choice([2, 3, 3]); no = rng.choice([1, 1, 2])
    inner = rng.random() < 0.25
    grp = [[0, 0] if inner and rng.random() < 0.6 else [0] for _ in range(nm)] + [rng.choice([[], [], [1]]) for _ in range(no)]
    n = nm + no
    types = [rng.choice(['event-based', 'event-based', 'hybrid']) for _ in range(n)]
    M = list(range(nm)); O = list(range(nm, n))
    def edge(a, b, kind='p', shift=0):
        sa = rng.choice(['eo', 'e2']); da = rng.choice(['ti', 't2'])
        return dict(a=a, b=b, sa=sa, da=da, kind=kind, shift=shift, init=False)
    edges = []
    a, b = rng.sample(M, 2)
    x = rng.choice(O)
    edges.append(edge(a, b))                       # inside the group
    edges.append(edge(a, x)); edges.append(edge(x, b))   # leaves the group and re-enters it
    # a weak same-time loop on the source
    if nm >= 3 and rng.random() < 0.7:
        z = [m for m in M if m not in (a, b)][0]
        edges.append(edge(a, z)); edges.append(edge(z, a, 'w'))
    else:
        edges.append(edge(a, a, 'w') if rng.random() < 0.5 else edge(b, a, 'w'))
    for _ in range(rng.randint(0, 2)):
        p, q = rng.randrange(n), rng.randrange(n)
        if p == q: continue
        back = p >= q
        edges.append(edge(p, q, 'ts' if back else 'p', rng.choice([1, 2]) if back else 0))
    rng.shuffle(edges)
    until, beh, init = gen_behaviour(rng, types, monotone=rng.random() < 0.7)
    if not any(i == a for i, _ in init) and types[a] == 'event-based':
        init.append([a, 0])
    if rng.random() < 0.5:
        # sparse mode: the loop of the source runs on one attribute, the other connections on the other one, which
        # fires only in a later sub-step
        for e in edges:
            if e['a'] == a: e['sa'] = 'eo' if e['kind'] != 'w' and any(f['a'] == e['b'] and f['b'] == a and f['kind'] == 'w' for f in edges) or (e['b'] == a) else 'e2'
        base = ['po'] if types[a] == 'hybrid' else []
        for tt in range(until + 1):
            kk = rng.choice([1, 1, 2])
            for k in range(5):
                beh[a]['outputs'][f'{tt},{k}'] = [None, base + (['eo'] if k < kk else ['e2'] if k == kk else [])]
    return dict(n=n, types=types, grp=grp, edges=edges, until=until, beh=beh, init=init, maxloop=rng.choice([100, 100, 4]))


def gen_queue_case(rng: random.Random):
    """queue stress: several producers feed the trigger input(s) of one consumer with future-dated outputs, so that the
    consumer's heap of pending steps receives many entries out of order, repeated demands for a pending (non-head) time
    and demands earlier than the head"""
    ns = rng.choice([1, 2, 2, 3])
    n = ns + 1
    dst = ns
    types = [rng.choice(['hybrid', 'hybrid', 'event-based', 'time-based']) for _ in range(ns)] + [rng.choice(['event-based', 'hybrid'])]
    grp = [[] for _ in range(n)]
    if rng.random() < 0.3: grp = [[0] for _ in range(n)]
    edges = []
    for a in range(ns):
        srcs = {'time-based': ['po'], 'event-based': ['eo', 'e2'], 'hybrid': ['po', 'eo', 'e2']}[types[a]]
        for sa in rng.sample(srcs, rng.randint(1, len(srcs))):
            kind = rng.choice(['p', 'p', 'ts'])
            edges.append(dict(a=a, b=dst, sa=sa, da=rng.choice(['ti', 't2']), kind=kind, shift=rng.choice([1, 2]) if kind == 'ts' else 0, init=False))
    until = rng.randint(5, 10)
    beh = []
    for i in range(n):
        t = types[i]
        if t == 'time-based':
            # a time-based producer cannot stamp future times per step through default_output; give it scripted outputs
            outs = {f'{tt},0': [tt + rng.randint(1, 4) if rng.random() < 0.6 else None, ['po']] for tt in range(until + 1)}
            beh.append({'type': t, 'step_size': rng.choice([1, 1, 2]), 'default_output': [None, ['po']], 'outputs': outs})
            continue
        ss = {str(tt): tt + rng.randint(1, 2) for tt in range(until) if rng.random() < (0.7 if i != dst else 0.3)}
        outs = {}
        for tt in range(until + 1):
            for k in range(3):
                attrs = (['po'] if t == 'hybrid' else []) + [a for a in ('eo', 'e2') if rng.random() < 0.7]
                outs[f'{tt},{k}'] = [tt + rng.randint(1, 4) if rng.random() < 0.6 else None, attrs]
        beh.append({'type': t, 'self_steps': ss, 'outputs': outs})
    init = [[i, rng.randint(0, 1)] for i in range(n) if types[i] == 'event-based' and (i != dst or rng.random() < 0.3)]
    return dict(n=n, types=types, grp=grp, edges=edges, until=until, beh=beh, init=init, maxloop=100)


def gen_nested_case(rng: random.Random):
    """nested groups with same-time iterations on two levels: simulators of an outer group G feed simulators of an inner
    group H by plain connections (the provider's sub-step is cut to the outer tiers: 1 < cutoff < depth of the consumer),
    while weak connections inside G - also from G into H - make provider and consumer step again at the same time in a
    later outer sub-step; the inner group may run a loop of its own"""
    no, ni = rng.choice([2, 2, 3]), rng.choice([1, 1, 2])
    top = rng.choice([0, 0, 1])
    n = no + ni + top
    outer, inner, tops = list(range(no)), list(range(no, no + ni)), list(range(no + ni, n))
    deep = rng.random() < 0.25      # a third level
    grp = [[0] for _ in outer] + [[0, 0] for _ in inner] + [[] for _ in tops]
    if deep: grp[inner[-1]] = [0, 0, 0]
    types = [rng.choice(['event-based', 'event-based', 'hybrid']) for _ in range(no + ni)] + ['time-based'] * top
    def E(a, b, kind, sa='eo', da='ti'): return dict(a=a, b=b, sa=sa, da=da, kind=kind, shift=1 if kind == 'ts' else 0, init=False)
    edges = []
    q = outer[0]
    for p_ in outer[1:]:
        edges.append(E(q, p_, rng.choice(['w', 'w', 'p'])))                      # coordinator -> other outer simulators
        if rng.random() < 0.3: edges.append(E(p_, q, rng.choice(['w', 'ts']), 'e2', 't2'))
    for c in inner:
        if rng.random() < 0.8: edges.append(E(q, c, rng.choice(['w', 'w', 'p']), 'eo', 't2'))       # coordinator -> inner simulators
        for p_ in outer[1:]:
            if rng.random() < 0.8: edges.append(E(p_, c, 'p', rng.choice(['eo', 'e2']), 'ti'))      # provider (outer) -> consumer (inner), plain
        if rng.random() < 0.25: edges.append(E(c, rng.choice(outer), rng.choice(['ts', 'w']), 'e2', 't2'))
    if ni == 2:
        edges.append(E(inner[0], inner[1], 'p', 'e2', 't2')); edges.append(E(inner[1], inner[0], 'w', 'e2', 't2'))
    for t_ in tops:
        edges.append(dict(a=t_, b=q, sa='po', da='ti', kind='p', shift=0, init=False))
    # no cycle without a resolving connection: drop plain connections that go against the order q < outer < inner
    until = rng.randint(1, 3)
    L = rng.choice([1, 2, 2, 3])
    beh = []
    for i in range(no + ni):
        outs = {}
        for tt in range(until):
            for k in range(6):
                outs[f'{tt},{k}'] = [None, (['eo', 'e2'] if k < L and rng.random() < 0.85 else [])]
        ss = {str(tt): tt + 1 for tt in range(until) if rng.random() < 0.4}
        beh.append({'type': types[i], 'self_steps': ss, 'outputs': outs})
    for t_ in tops:
        beh.append({'type': 'time-based', 'step_size': 1, 'default_output': [None, ['po']]})
    init = [[i, 0] for i in range(no + ni) if types[i] == 'event-based' and (i == q or rng.random() < 0.6)]
    return dict(n=n, types=types, grp=grp, edges=edges, until=until, beh=beh, init=init, maxloop=rng.choice([100, 100, 8]))


def gen_fanin_case(rng: random.Random):
    """fan-in: three or four producers, each with one to three connections of different delays (plain, time-shifted by
    1 or 2) into distinct slots of ONE consumer, so that many entries for two or three different due times are in the
    consumer's timed input buffer at once and reach it in many different orders; outputs at every step, output times
    never go back, no initial data on event sources (inside the data-flow hypotheses of C03)"""
    np_ = rng.choice([3, 3, 4])
    n = np_ + 1; dst = np_
    types = ['hybrid'] * np_ + ['hybrid']
    grp = [[] for _ in range(n)] if rng.random() < 0.7 else [[0] for _ in range(n)]
    slots = [('po', 'i'), ('eo', 'ti'), ('e2', 't2')]
    edges = []
    for a in range(np_):
        k = rng.choice([1, 2, 3, 3])
        for (sa, da) in rng.sample(slots, k):
            kind = rng.choice(['p', 'p', 'ts', 'ts'])
            shift = rng.choice([1, 1, 2]) if kind == 'ts' else 0
            edges.append(dict(a=a, b=dst, sa=sa, da=da, kind=kind, shift=shift, init=bool(kind == 'ts' and da == 'i')))
    until = rng.randint(3, 5)
    beh = []
    for i in range(n):
        ss = {str(tt): tt + 1 for tt in range(until)} if i < np_ else {str(tt): tt + 1 for tt in range(until) if rng.random() < 0.7}
        outs = {f'{tt},0': [None, ['po', 'eo', 'e2']] for tt in range(until + 1)}
        beh.append({'type': 'hybrid', 'self_steps': ss, 'outputs': outs, 'default_output': [None, ['po']]})
    return dict(n=n, types=types, grp=grp, edges=edges, until=until, beh=beh, init=[], maxloop=100)


def gen_mixed_attr_case(rng: random.Random):
    """ONE destination attribute fed by a persistent output of one simulator and by an event output of another (two slots of
    the same attribute): the meter produces at every step, the alarm only now and then; the consumer - triggered by both -
    also steps while the alarm is silent and must then see the meter's value only, with the cache on (pulled) and off (kept
    in the persistent-input memory) alike.  Sometimes a second persistent source, sometimes the consumer steps by itself."""
    until = rng.randint(4, 7)
    extra = rng.random() < 0.4
    ctype = rng.choice(['hybrid', 'hybrid', 'event-based'])
    types = [rng.choice(['time-based', 'hybrid']), rng.choice(['event-based', 'hybrid']), ctype] + (['time-based'] if extra else [])
    n = len(types)
    grp = [[] for _ in range(n)] if rng.random() < 0.8 else [[0] for _ in range(n)]
    edges = [dict(a=0, b=2, sa='po', da='ti', kind='p', shift=0, init=False),
             dict(a=1, b=2, sa='eo', da='ti', kind='p', shift=0, init=False)]
    if extra: edges.append(dict(a=3, b=2, sa='po', da='ti', kind=rng.choice(['p', 'ts']), shift=1, init=False))
    if edges[-1]['kind'] != 'ts': edges[-1]['shift'] = 0
    rng.shuffle(edges)
    loud = sorted(rng.sample(range(until), rng.randint(1, 2)))
    beh = []
    for i in range(n):
        if types[i] == 'time-based':
            beh.append({'type': 'time-based', 'step_size': 1, 'default_output': [None, ['po']]})
        elif i == 1:
            ss = {str(t): t + 1 for t in range(until)}
            outs = {f'{t},0': [None, (['eo'] if t in loud else []) + (['po'] if types[i] == 'hybrid' else [])] for t in range(until + 1)}
            beh.append({'type': types[i], 'self_steps': ss, 'outputs': outs, 'default_output': [None, ['po'] if types[i] == 'hybrid' else []]})
        elif i == 2:
            ss = {str(t): t + 1 for t in range(until)} if (ctype == 'hybrid' and rng.random() < 0.4) else {}
            beh.append({'type': ctype, 'self_steps': ss, 'outputs': {}, 'default_output': [None, ['po'] if ctype == 'hybrid' else []]})
        else:
            beh.append({'type': 'hybrid', 'self_steps': {str(t): t + 1 for t in range(until)}, 'outputs': {}, 'default_output': [None, ['po']]})
    return dict(n=n, types=types, grp=grp, edges=edges, until=until, beh=beh, init=[[1, 0]] if types[1] == 'event-based' else [], maxloop=100)


def delay_async_edges(rng, case):
    """the connection that carries async_requests becomes time-shifted / weak itself: the input delay of the pair must still
    be the (zero) delay of the async-requests relation"""
    for e in [e for e in case['edges'] if e.get('async')]:
        same_src = [f for f in case['edges'] if f['a'] == e['a'] and f['sa'] == e['sa']]
        if len(same_src) != 1: continue
        in_group = bool(case['grp'][e['a']]) and bool(case['grp'][e['b']]) and case['grp'][e['a']][0] == case['grp'][e['b']][0]
        kind = rng.choice(['ts', 'ts', 'w'] if in_group else ['ts'])
        if e['sa'] in ('eo', 'e2') and e['da'] == 'i': continue       # would need initial data on an event source
        e.update(kind=kind, shift=rng.choice([1, 1, 2]) if kind == 'ts' else 0, init=bool(e['da'] == 'i'))
    return case


def gen_lazy_case(rng: random.Random):
    """run-ahead stress for lazy stepping: producers that could run far ahead of their (slow) direct consumers; each
    producer-consumer pair is joined by exactly one connection - plain, time-shifted or weak (inside a common group, with
    no path back) - so that the successors entry of that single connection is what holds the producer back"""
    np_, nc = rng.choice([1, 1, 2]), rng.choice([1, 1, 2])
    n = np_ + nc
    shape = rng.choice(['flat', 'one', 'one', 'nested', 'mixed'])
    if shape == 'flat': grp = [[] for _ in range(n)]
    elif shape == 'one': grp = [[0] for _ in range(n)]
    elif shape == 'nested': grp = [[0] if i < np_ else [0, 0] for i in range(n)]
    else: grp = [rng.choice([[0], [0, 0], [0, 1]]) for _ in range(n)]
    types = [rng.choice(['time-based', 'hybrid', 'hybrid']) for _ in range(np_)] + [rng.choice(['time-based', 'hybrid', 'event-based']) for _ in range(nc)]
    edges = []
    for a in range(np_):
        for b in rng.sample(range(np_, n), rng.randint(1, nc)):
            common = common_prefix(grp[a], grp[b]) > 0
            kind = rng.choice(['p', 'ts'] + (['w', 'w', 'w'] if common else []))
            srcs = {'time-based': ['po'], 'hybrid': ['po', 'eo']}[types[a]]
            dsts = {'time-based': ['i'], 'event-based': ['ti'], 'hybrid': ['i', 'ti']}[types[b]]
            sa, da = rng.choice(srcs), rng.choice(dsts)
            if sa == 'eo' and da == 'i': da = 'ti' if 'ti' in dsts else da
            if sa == 'eo' and da == 'i': sa = 'po'
            edges.append(dict(a=a, b=b, sa=sa, da=da, kind=kind, shift=rng.choice([1, 2]) if kind == 'ts' else 0,
                              init=bool(kind != 'p' and da == 'i')))
    until = rng.randint(4, 8)
    beh = []
    for i in range(n):
        t = types[i]
        if t == 'time-based':
            beh.append({'type': t, 'step_size': rng.choice([1, 1, 2]), 'default_output': [None, ['po']]})
        else:
            ss = {str(tt): tt + rng.choice([1, 1, 2]) for tt in range(until)} if (i < np_ or rng.random() < 0.5) else {}
            attrs = ['eo'] if t == 'event-based' else ['po', 'eo']
            beh.append({'type': t, 'self_steps': ss, 'default_output': [None, attrs]})
    init = [[i, 0] for i in range(n) if types[i] == 'event-based' and rng.random() < 0.7]
    case = dict(n=n, types=types, grp=grp, edges=edges, until=until, beh=beh, init=init, maxloop=100)
    r2 = random.Random(n * 131 + until * 17 + len(edges))        # (own generator: the main stream is unchanged)
    if r2.random() < 0.5:
        # consumers with plain (non-generator) step/get_data methods: they never suspend, but still lag behind when another,
        # slow predecessor holds them back - their producers must wait for them all the same
        case['plain'] = [i for i in range(np_, n) if r2.random() < 0.7]
    return case


def gen_parallel_case(rng: random.Random, clean=True):
    """one ordered pair of simulators connected several times with different delays (the larger one first or last), on
    different slots, dense data on every connection; optionally a third simulator up- or downstream"""
    n = rng.choice([2, 2, 3])
    types = [rng.choice(['hybrid', 'hybrid', 'time-based']) for _ in range(n)]
    types[1] = rng.choice(['hybrid', 'hybrid', 'time-based', 'event-based'])
    if types[0] == 'time-based' and types[1] == 'time-based' and rng.random() < 0.5: types[1] = 'hybrid'
    same = rng.random() < 0.3
    grp = [[0] if same else [] for _ in range(n)]
    srcs = {'time-based': ['po'], 'event-based': ['eo', 'e2'], 'hybrid': ['po', 'eo', 'e2']}[types[0]]
    dsts = {'time-based': ['i'], 'event-based': ['ti', 't2'], 'hybrid': ['i', 'ti', 't2']}[types[1]]
    slots = [(sa, da) for sa in srcs for da in dsts]
    rng.shuffle(slots)
    used_s, used_d, chosen = set(), set(), []
    for sa, da in slots:
        if clean and (da in used_d): continue          # one connection per destination slot
        chosen.append((sa, da)); used_s.add(sa); used_d.add(da)
        if len(chosen) >= rng.choice([2, 2, 3]): break
    delays = rng.sample([('p', 0), ('ts', 1), ('ts', 2), ('ts', 3)] + ([('w', 0)] if same and not clean else []), len(chosen))
    edges = []
    for (sa, da), (kind, shift) in zip(chosen, delays):
        needs_init = kind != 'p' and da == 'i'
        if clean and needs_init and sa != 'po': kind, shift, needs_init = 'p', 0, False
        if clean and needs_init and any(e['sa'] == sa and e['init'] for e in edges): continue    # one initialised connection per source attribute
        edges.append(dict(a=0, b=1, sa=sa, da=da, kind=kind, shift=shift, init=bool(needs_init)))
    if n == 3:
        if rng.random() < 0.5:
            sa = rng.choice({'time-based': ['po'], 'event-based': ['eo'], 'hybrid': ['po', 'eo']}[types[1]])
            da = rng.choice({'time-based': ['i'], 'event-based': ['ti'], 'hybrid': ['i', 'ti']}[types[2]])
            edges.append(dict(a=1, b=2, sa=sa, da=da, kind='p', shift=0, init=False))
        else:
            sa = rng.choice({'time-based': ['po'], 'event-based': ['eo'], 'hybrid': ['po', 'eo']}[types[2]])
            da = rng.choice({'time-based': ['i'], 'event-based': ['ti'], 'hybrid': ['i', 'ti']}[types[0]])
            if not (clean and any(e['b'] == 0 and e['da'] == da for e in edges)):
                edges.append(dict(a=2, b=0, sa=sa, da=da, kind='p', shift=0, init=False))
    until = rng.randint(4, 8)
    beh = []
    for i in range(n):
        t = types[i]
        if t == 'time-based':
            beh.append({'type': t, 'step_size': rng.choice([1, 1, 2, 3]), 'default_output': [None, ['po']]}); continue
        ss = {str(tt): tt + rng.randint(1, 2) for tt in range(until) if rng.random() < 0.6}
        outs = {}
        for tt in range(until + 1):
            for k in range(3):
                attrs = (['po'] if t == 'hybrid' else []) + [a for a in ('eo', 'e2') if rng.random() < 0.75 and k == 0]
                outs[f'{tt},{k}'] = [None, attrs]
        beh.append({'type': t, 'self_steps': ss, 'outputs': outs})
    init = [[i, rng.randint(0, 1)] for i in range(n) if types[i] == 'event-based']
    return dict(n=n, types=types, grp=grp, edges=edges, until=until, beh=beh, init=init, maxloop=100)


def gen_chain_case(rng: random.Random):
    """trigger chains: a head that steps by itself (time-based or hybrid) followed by three or four relays that only step when
    triggered (event-based, sometimes hybrid without own steps), every hop a triggering connection, optionally one hop
    time-shifted and one side branch; the simulator INDICES are a random permutation of the chain positions, so that the
    start order (index order, reversed, or an explicit permutation) is unrelated to the data-flow order; flat or all in one
    group.  Inside the data-flow hypotheses of C03 (outputs at every step, monotone output times, no initial data)."""
    hops = rng.choice([3, 3, 4])
    n = hops + 1
    pos = list(range(n)); rng.shuffle(pos)          # pos[k] = index of the simulator at chain position k
    until = rng.randint(3, 5)
    types = [None] * n; beh = [None] * n
    head_t = rng.choice(['time-based', 'hybrid'])
    for k in range(n):
        i = pos[k]
        if k == 0:
            types[i] = head_t
            if head_t == 'time-based': beh[i] = {'type': 'time-based', 'step_size': rng.choice([1, 1, 2]), 'default_output': [None, ['po']]}
            else: beh[i] = {'type': 'hybrid', 'self_steps': {str(tt): tt + 1 for tt in range(until)}, 'outputs': {f'{tt},0': [None, ['po', 'eo']] for tt in range(until + 1)}, 'default_output': [None, ['po', 'eo']]}
        else:
            types[i] = 'event-based' if rng.random() < 0.8 else 'hybrid'
            attrs = ['eo'] if types[i] == 'event-based' else ['po', 'eo']
            beh[i] = {'type': types[i], 'self_steps': {}, 'outputs': {f'{tt},{q}': [None, attrs] for tt in range(until + 1) for q in range(3)}, 'default_output': [None, attrs]}
    edges = []
    shifted = rng.randrange(1, hops) if rng.random() < 0.3 else None
    for k in range(hops):
        a, b = pos[k], pos[k + 1]
        sa = 'po' if (k == 0 and head_t == 'time-based') else 'eo'
        kind = 'ts' if k == shifted else 'p'
        edges.append(dict(a=a, b=b, sa=sa, da='ti', kind=kind, shift=1 if kind == 'ts' else 0, init=False))
    if rng.random() < 0.4:
        k = rng.randrange(1, hops - 1) if hops > 2 else 1
        edges.append(dict(a=pos[k], b=pos[n - 1], sa='eo', da='t2', kind='p', shift=0, init=False))      # a short cut to the last relay
    grp = [[] for _ in range(n)] if rng.random() < 0.7 else [[0] for _ in range(n)]
    return dict(n=n, types=types, grp=grp, edges=edges, until=until, beh=beh, init=[], maxloop=100)


def gen_weak_and_direct_case(rng: random.Random):
    """a pair in one group joined in the SAME direction by a weak connection and by a plain one (made in either order, on
    different slots), the plain one from a persistent attribute; dense outputs at every step, no explicit output times; an
    optional third simulator in or outside the group.  The consumer must wait for the producer's step of the same time
    (the smaller of the two delays), whichever connection was made first and whoever was started first."""
    n = rng.choice([2, 2, 3])
    until = rng.randint(3, 5)
    types = ['hybrid'] * n
    grp = [[0], [0]] + ([[0]] if n == 3 and rng.random() < 0.5 else [[]] if n == 3 else [])
    src, dst = (0, 1) if rng.random() < 0.5 else (1, 0)         # also with the consumer started first
    weak = dict(a=src, b=dst, sa='eo', da='ti', kind='w', shift=0, init=False)
    plain = dict(a=src, b=dst, sa='po', da='i', kind='p', shift=0, init=False)
    edges = [weak, plain] if rng.random() < 0.6 else [plain, weak]
    if n == 3:
        edges.append(dict(a=dst, b=2, sa='po', da='i', kind='p', shift=0, init=False) if rng.random() < 0.5 else
                     dict(a=2, b=src, sa='po', da='i', kind='p', shift=0, init=False))
    beh = []
    for i in range(n):
        ss = {str(tt): tt + 1 for tt in range(until)}
        outs = {f'{tt},{q}': [None, ['po', 'eo'] if (q == 0 and i == src and rng.random() < 0.6) else ['po']] for tt in range(until + 1) for q in range(3)}
        beh.append({'type': 'hybrid', 'self_steps': ss, 'outputs': outs, 'default_output': [None, ['po']]})
    return dict(n=n, types=types, grp=grp, edges=edges, until=until, beh=beh, init=[], maxloop=100)


def gen_plain_init_case(rng: random.Random):
    """declared initial data on an UNDELAYED connection from a persistent output: mosaik accepts it (with a warning), and a
    consumer that steps before the source's first step (the source starts late: set_initial_event at t0 >= 1) must see it
    until the source has produced a value.  Sometimes a second consumer on a time-shifted connection from the same output."""
    n = rng.choice([2, 2, 3])
    until = rng.randint(4, 6)
    t0 = rng.randint(1, 3)
    styp = rng.choice(['hybrid', 'time-based'])
    types = [styp] + [rng.choice(['time-based', 'hybrid']) for _ in range(n - 1)]
    order = rng.random() < 0.5
    edges = [dict(a=0, b=1, sa='po', da='i', kind='p', shift=0, init=True)]
    if n == 3:
        edges.append(dict(a=0, b=2, sa='po', da='i', kind='p', shift=0, init=rng.random() < 0.5) if rng.random() < 0.5 else
                     dict(a=1, b=2, sa='po', da='i', kind='p', shift=0, init=False))
    beh = []
    for i in range(n):
        step = rng.choice([1, 1, 2])
        ss = {str(tt): tt + step for tt in range(until + 1)}
        beh.append({'type': types[i], 'self_steps': ss, 'step_size': step, 'default_output': [None, ['po']]})
    return dict(n=n, types=types, grp=[[] for _ in range(n)], edges=edges, until=until, beh=beh, init=[[0, t0]], maxloop=100)


def gen_pingpong_case(rng: random.Random):
    """a delayed ping-pong inside one group: A -> B (plain trigger), B -> A (weak trigger, sometimes through a relay); B
    answers at once, A - stepped at a sub-step k >= 1 by the weak connection - announces its output for the NEXT time step.
    Every time step has two or three sub-steps, so the loop settles at once, but the run lasts for more time steps than
    max_loop_iterations: a sub-step counter that is not reset when time advances would trip the loop guard."""
    relay = rng.random() < 0.3
    n = 3 if relay else 2
    bound = rng.choice([2, 3, 3, 4])
    until = bound + rng.randint(2, 4)
    types = ['event-based'] * n
    grp = [[0] for _ in range(n)] if rng.random() < 0.7 else [[0, 0] for _ in range(n)]
    edges = [dict(a=0, b=1, sa='eo', da='ti', kind='p', shift=0, init=False)]
    if relay:
        edges += [dict(a=1, b=2, sa='eo', da='ti', kind='p', shift=0, init=False), dict(a=2, b=0, sa='eo', da='ti', kind='w', shift=0, init=False)]
    else:
        edges += [dict(a=1, b=0, sa='eo', da='ti', kind='w', shift=0, init=False)]
    step_ahead = rng.choice([1, 1, 2])
    beh = []
    for i in range(n):
        base = [] if types[i] == 'event-based' else ['po']
        outs = {}
        for tt in range(until + 1):
            for k in range(until + 3):
                if i == 0: outs[f'{tt},{k}'] = [tt + step_ahead, base + ['eo']]       # (k counts A's steps at this time: its first one is a sub-step >= 1 from the second time step on)
                else: outs[f'{tt},{k}'] = [None, base + ['eo']]
        beh.append({'type': types[i], 'self_steps': {}, 'outputs': outs, 'default_output': [None, base]})
    init = [[0, 0]] if types[0] == 'event-based' else []
    return dict(n=n, types=types, grp=grp, edges=edges, until=until, beh=beh, init=init, maxloop=bound, loop_len=1)


def gen_sibling_reader_case(rng: random.Random):
    """two sibling groups: in the first a same-time loop A -> B -> (weak) A that takes two or three iterations per time step
    and refines A's persistent output in each; in the second a consumer C that reads that output over a plain connection
    (it must see the value A has when it LEAVES the time step, whoever is fast or slow); a time-based simulator D at the top
    level also feeds C, so that the moment C's turn comes varies with the schedule.  Dense outputs, no explicit output times."""
    iters = rng.choice([2, 3])
    until = rng.randint(2, 4)
    types = ['hybrid', 'hybrid', rng.choice(['hybrid', 'time-based']), 'time-based']
    grp = [[0], [0], [1], []]
    edges = [dict(a=0, b=1, sa='eo', da='ti', kind='p', shift=0, init=False), dict(a=1, b=0, sa='eo', da='ti', kind='w', shift=0, init=False),
             dict(a=0, b=2, sa='po', da='i', kind='p', shift=0, init=False), dict(a=3, b=2, sa='po', da='i', kind='p', shift=0, init=False)]
    if rng.random() < 0.4: edges.append(dict(a=1, b=2, sa='po', da='i', kind='p', shift=0, init=False))
    beh = []
    for i in range(2):
        outs = {f'{tt},{q}': [None, ['po', 'eo'] if q < iters - (1 if i == 1 else 0) else ['po']] for tt in range(until + 1) for q in range(iters + 2)}
        beh.append({'type': 'hybrid', 'self_steps': {str(tt): tt + 1 for tt in range(until)}, 'outputs': outs, 'default_output': [None, ['po']]})
    if types[2] == 'hybrid':
        beh.append({'type': 'hybrid', 'self_steps': {str(tt): tt + 1 for tt in range(until)}, 'outputs': {f'{tt},0': [None, ['po']] for tt in range(until + 1)}, 'default_output': [None, ['po']]})
    else:
        beh.append({'type': 'time-based', 'step_size': 1, 'default_output': [None, ['po']]})
    beh.append({'type': 'time-based', 'step_size': 1, 'default_output': [None, ['po']]})
    return dict(n=4, types=types, grp=grp, edges=edges, until=until, beh=beh, init=[], maxloop=100)


def gen_forecast_case(rng: random.Random):
    """forecasting producers: a hybrid simulator stamps every output of its persistent attribute a constant k >= 1 steps into
    the future (monotone output times, so inside the data-flow hypotheses); its consumers step at times between the producing
    step and the stamped time and must not see the value before it is due - with the cache on (pulled) exactly as with the
    cache off (pushed through the timed buffer)"""
    n = rng.choice([2, 3])
    until = rng.randint(4, 7)
    k = rng.choice([1, 2, 2, 3])
    every = rng.choice([1, 2])
    types = ['hybrid'] + [rng.choice(['time-based', 'hybrid']) for _ in range(n - 1)]
    grp = [[] for _ in range(n)]
    edges = [dict(a=0, b=j, sa='po', da='i', kind='p', shift=0, init=False) for j in range(1, n)]
    if n == 3 and rng.random() < 0.5: edges[-1] = dict(a=0, b=2, sa='po', da='i', kind='ts', shift=1, init=True)
    beh = [{'type': 'hybrid', 'self_steps': {str(t): t + every for t in range(0, until, every)},
            'outputs': {f'{t},0': [t + k, ['po']] for t in range(until + 1)}, 'default_output': [None, ['po']]}]
    for j in range(1, n):
        if types[j] == 'time-based': beh.append({'type': 'time-based', 'step_size': 1, 'default_output': [None, ['po']]})
        else: beh.append({'type': 'hybrid', 'self_steps': {str(t): t + 1 for t in range(until)}, 'outputs': {f'{t},0': [None, ['po']] for t in range(until + 1)}, 'default_output': [None, ['po']]})
    return dict(n=n, types=types, grp=grp, edges=edges, until=until, beh=beh, init=[], maxloop=100)


def gen_substep_forecast_case(rng: random.Random):
    """a future-dated output from INSIDE a same-time loop: A and L settle a weak loop in one group; at a sub-step k >= 1 A
    announces an output for a later time t' > t, which triggers B (same group or a deeper one); B feeds the self-stepping D
    over an undelayed connection.  B's step for t' is the first sub-step of t' - D's step at t' has to wait for it."""
    until = rng.randint(4, 7)
    deep = rng.random() < 0.3
    grp = [[0], [0], [0, 0] if deep else [0], [0, 0] if deep else [0]]
    types = ['hybrid', rng.choice(['event-based', 'hybrid']), rng.choice(['hybrid', 'hybrid', 'event-based']), rng.choice(['time-based', 'hybrid'])]
    bout = 'po' if types[2] == 'hybrid' and rng.random() < 0.6 else 'eo'
    din = 'i' if bout == 'po' or types[3] == 'time-based' else 'ti'
    edges = [dict(a=0, b=1, sa='eo', da='ti', kind='p', shift=0, init=False),
             dict(a=1, b=0, sa='eo', da='ti', kind='w', shift=0, init=False),
             dict(a=0, b=2, sa='e2', da='ti', kind='p', shift=0, init=False),
             dict(a=2, b=3, sa=bout, da=din, kind='p', shift=0, init=False)]
    if rng.random() < 0.5: edges = [edges[2], edges[3], edges[0], edges[1]]
    t0 = rng.choice([0, 0, 1]); ahead = rng.choice([1, 2, 2, 3]); rounds = rng.choice([1, 1, 2])
    every = rng.choice([2, 3, until])
    outsA, outsL = {}, {}
    for t in range(t0, until, every):
        for q in range(rounds + 1):
            outsA[f'{t},{q}'] = [None, ['po', 'eo']] if q < rounds else [t + ahead, ['po', 'e2']]        # the last sub-step announces the future output
            outsL[f'{t},{q}'] = [None, ['eo'] + (['po'] if types[1] == 'hybrid' else [])]
    beh = [{'type': 'hybrid', 'self_steps': {str(t): t + every for t in range(t0, until, every)}, 'outputs': outsA, 'default_output': [None, ['po']]},
           {'type': types[1], 'self_steps': {}, 'outputs': outsL, 'default_output': [None, ['po'] if types[1] == 'hybrid' else []]},
           {'type': types[2], 'self_steps': {}, 'outputs': {}, 'default_output': [None, [bout] + (['po'] if types[2] == 'hybrid' and bout != 'po' else [])]}]
    if types[3] == 'time-based': beh.append({'type': 'time-based', 'step_size': 1, 'default_output': [None, ['po']]})
    else: beh.append({'type': 'hybrid', 'self_steps': {str(t): t + 1 for t in range(until)}, 'outputs': {}, 'default_output': [None, ['po']]})
    init = [[0, t0]] if t0 else []
    return dict(n=4, types=types, grp=grp, edges=edges, until=until, beh=beh, init=init, maxloop=100)


def gen_late_event_case(rng: random.Random):
    """initial events at the very end: an event-based simulator that is triggered early by a hybrid ticker over a time-shifted
    (or, in a group, weak) connection and has an initial event at until, until + 1 or until - 1; the ticker goes on stepping
    to the end but produces the triggering output only at the beginning, so the simulator waits - its progress held below until
    by its ancestor - with the late event at the head of its queue.  Nothing may be stepped at or after until."""
    until = rng.randint(3, 6)
    late = until + rng.choice([0, 0, 0, 1, -1])
    grouped = rng.random() < 0.4
    n = rng.choice([2, 3])
    types = ['hybrid', 'event-based'] + (['hybrid'] if n == 3 else [])
    grp = [[0] for _ in range(n)] if grouped else [[] for _ in range(n)]
    kind = rng.choice(['ts', 'ts', 'w']) if grouped else 'ts'
    edges = [dict(a=0, b=1, sa='eo', da='ti', kind=kind, shift=1 if kind == 'ts' else 0, init=False)]
    if n == 3: edges.append(dict(a=1, b=2, sa='eo', da='ti', kind='p', shift=0, init=False))
    first = rng.choice([0, 0, 1])
    beh = [{'type': 'hybrid', 'self_steps': {str(t): t + 1 for t in range(until)},
            'outputs': {f'{t},0': [None, ['po', 'eo'] if t <= first else ['po']] for t in range(until + 1)}, 'default_output': [None, ['po']]},
           {'type': 'event-based', 'self_steps': {}, 'outputs': {}, 'default_output': [None, ['eo']]}]
    if n == 3: beh.append({'type': 'hybrid', 'self_steps': {}, 'outputs': {}, 'default_output': [None, ['po']]})
    return dict(n=n, types=types, grp=grp, edges=edges, until=until, beh=beh, init=[[1, late]], maxloop=100)


def gen_two_path_case(rng: random.Random):
    """two trigger paths of different delay between one pair: A -> C directly over a time-shifted connection, and A -> B -> C
    with no delay (the direct one connected first or last).  A steps at every time but produces its (event) output only at
    one step t0; D consumes C and steps by itself at every time: its step at t0 has to wait for C's step at t0, which A's
    output causes through B - the smaller of the two path delays is what bounds C's progress."""
    until = rng.randint(4, 7)
    t0 = rng.randint(1, until - 2)
    shift = rng.choice([1, 1, 2])
    grouped = rng.random() < 0.25
    types = [rng.choice(['event-based', 'hybrid']), 'event-based', rng.choice(['event-based', 'hybrid']), rng.choice(['time-based', 'hybrid'])]
    grp = [[0]] * 4 if grouped else [[] for _ in range(4)]
    direct = dict(a=0, b=2, sa='eo', da='t2', kind='ts', shift=shift, init=False)
    chain = [dict(a=0, b=1, sa='eo', da='ti', kind='p', shift=0, init=False), dict(a=1, b=2, sa='eo', da='ti', kind='p', shift=0, init=False)]
    tail = dict(a=2, b=3, sa='eo' if types[2] == 'event-based' or rng.random() < 0.5 else 'po', da='i', kind='p', shift=0, init=False)
    edges = ([direct] + chain if rng.random() < 0.6 else chain + [direct]) + [tail]
    if rng.random() < 0.3: edges = [tail] + edges[:-1]
    outs_a = {f'{t},0': [None, (['eo'] if t == t0 else []) + (['po'] if types[0] == 'hybrid' else [])] for t in range(until + 1)}
    beh = [{'type': types[0], 'self_steps': {str(t): t + 1 for t in range(until)}, 'outputs': outs_a, 'default_output': [None, []]},
           {'type': 'event-based', 'self_steps': {}, 'outputs': {}, 'default_output': [None, ['eo']]},
           {'type': types[2], 'self_steps': {}, 'outputs': {}, 'default_output': [None, ['eo'] + (['po'] if types[2] == 'hybrid' else [])]}]
    if types[3] == 'time-based': beh.append({'type': 'time-based', 'step_size': 1, 'default_output': [None, ['po']]})
    else: beh.append({'type': 'hybrid', 'self_steps': {str(t): t + 1 for t in range(until)}, 'outputs': {}, 'default_output': [None, ['po']]})
    return dict(n=4, types=types, grp=grp, edges=edges, until=until, beh=beh, init=[[0, 0]] if types[0] == 'event-based' else [], maxloop=100)


def gen_detour_case(rng: random.Random):
    """two trigger paths between one pair that tie on every tier and differ only in the cutoff: A -> B directly inside a group,
    and A -> M -> B through a simulator M outside the group.  A iterates a weak same-time loop with Q and feeds M only in its
    second iteration, and it never produces the attribute of the direct connection, so B has no step of its own queued; C, in
    the group, consumes B and steps by itself at every time.  C must not be stepped at t before B's step at t (which A's
    second iteration causes through M).  (The scenario leaves and re-enters the group: run with lazy stepping off, where the
    unchanged scheduler completes it.)"""
    until = rng.randint(2, 4)
    # indices: A=0, Q=1, B=2, M=3, C=4 (started in a random order by the start-order variants of the checks)
    types = ['hybrid', 'event-based', 'event-based', 'event-based', 'hybrid']
    grp = [[0], [0], [0], [], [0]]
    edges = [dict(a=0, b=1, sa='eo', da='ti', kind='p', shift=0, init=False), dict(a=1, b=0, sa='eo', da='ti', kind='w', shift=0, init=False),
             dict(a=0, b=2, sa='po', da='t2', kind='p', shift=0, init=False), dict(a=0, b=3, sa='e2', da='ti', kind='p', shift=0, init=False),
             dict(a=3, b=2, sa='eo', da='ti', kind='p', shift=0, init=False),
             dict(a=2, b=4, sa='eo', da=rng.choice(['ti', 'ti', 't2']), kind='p', shift=0, init=False)]
    rng.shuffle(edges)
    outs_a = {}
    for t in range(until + 1):
        outs_a[f'{t},0'] = [None, ['eo']]; outs_a[f'{t},1'] = [None, ['e2']]
        for q in range(2, 5): outs_a[f'{t},{q}'] = [None, []]
    beh = [{'type': 'hybrid', 'self_steps': {str(t): t + 1 for t in range(until)}, 'outputs': outs_a, 'default_output': [None, []]},
           {'type': 'event-based', 'self_steps': {}, 'outputs': {f'{t},0': [None, ['eo']] for t in range(until + 1)}, 'default_output': [None, []]},
           {'type': 'event-based', 'self_steps': {}, 'outputs': {}, 'default_output': [None, ['eo']]},
           {'type': 'event-based', 'self_steps': {}, 'outputs': {}, 'default_output': [None, ['eo']]},
           {'type': 'hybrid', 'self_steps': {str(t): t + 1 for t in range(until)}, 'outputs': {}, 'default_output': [None, ['po']]}]
    return dict(n=5, types=types, grp=grp, edges=edges, until=until, beh=beh, init=[], maxloop=100, lazy_only_off=True)
