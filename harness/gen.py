"""Structured generators of scheduler cases (DESIGN.md 2.5b). Every choice comes from the rng passed in."""
from __future__ import annotations
import random

GROUP_SHAPES = [
    [[]],                                  # flat
    [[], [0]],                             # one group
    [[], [0], [1]],                        # sibling groups
    [[], [0], [0, 0]],                     # nested
    [[], [0], [0, 0], [0, 1], [1]],        # nested + siblings
]


def common_prefix(a, b):
    n = 0
    for x, y in zip(a, b):
        if x != y: break
        n += 1
    return n


def gen_case(rng: random.Random, groups=True, malformed=False, asyncs=False, compliant_outputs=False, maxn=5,
             monotone=False, unique_slots=False, weak_ok=True, shifts=(1, 1, 1, 2, 3)):
    n = rng.randint(2, maxn)
    types = [rng.choice(['time-based', 'event-based', 'hybrid']) for _ in range(n)]
    r = rng.random()
    if not groups or r < 0.4:
        shape = GROUP_SHAPES[0]
    elif r < 0.8:
        shape = rng.choice(GROUP_SHAPES[1:3])
    else:
        shape = rng.choice(GROUP_SHAPES[3:])
    grp = [list(rng.choice(shape)) if len(shape) > 1 and rng.random() < 0.75 else [] for _ in range(n)]
    edges = []
    m = rng.randint(1, 2 * n)
    seen_slots = set()
    for _ in range(m):
        a, b = rng.randrange(n), rng.randrange(n)
        if a == b and rng.random() < 0.85: continue
        in_common_group = common_prefix(grp[a], grp[b]) > 0
        kind = 'p'
        back = a >= b
        if back:
            r = rng.random()
            if r < 0.1: kind = 'p'      # feeds the cycle check
            elif in_common_group and weak_ok and r < 0.45: kind = 'w'
            else: kind = 'ts'
        else:
            r = rng.random()
            if r < 0.15: kind = 'ts'
            elif r < 0.25 and in_common_group and weak_ok: kind = 'w'
        srcs = {'time-based': ['po'], 'event-based': ['eo'], 'hybrid': ['po', 'eo']}[types[a]]
        dsts = {'time-based': ['i'], 'event-based': ['ti'], 'hybrid': ['i', 'ti']}[types[b]]
        sa = rng.choice(srcs); da = rng.choice(dsts)
        if sa == 'eo' and da == 'i' and rng.random() < 0.85:
            if 'ti' in dsts: da = 'ti'
            elif 'po' in srcs: sa = 'po'
        if unique_slots and (a, sa, b, da) in seen_slots: continue
        seen_slots.add((a, sa, b, da))
        shift = rng.choice(shifts) if kind == 'ts' else 0
        needs_init = kind != 'p' and da == 'i'
        init = needs_init or (kind != 'p' and sa == 'po' and rng.random() < 0.5)
        e = dict(a=a, b=b, sa=sa, da=da, kind=kind, shift=shift, init=bool(init))
        if asyncs and kind == 'p' and not back and rng.random() < 0.5:
            e['async'] = True
        edges.append(e)
        # parallel connection between the same pair with a different delay (explicit generator feature)
        if rng.random() < 0.12 and not unique_slots:
            k2 = rng.choice(['ts', 'p'] + (['w'] if in_common_group and weak_ok else []))
            if k2 != kind:
                e2 = dict(e); e2.pop('async', None)
                e2.update(kind=k2, shift=rng.choice(shifts) if k2 == 'ts' else 0)
                e2['init'] = (k2 != 'p' and da == 'i') or (k2 != 'p' and sa == 'po' and rng.random() < 0.5)
                edges.append(e2)
    until = rng.randint(2, 8)
    beh = []
    for i in range(n):
        t = types[i]
        b = {'type': t}
        if t == 'time-based':
            b['step_size'] = rng.choice([1, 1, 2, 3])
            b['default_output'] = [None, ['po']]
        else:
            ss = {}
            for tt in range(until):
                if rng.random() < 0.35: ss[str(tt)] = tt + rng.randint(1, 3)
            b['self_steps'] = ss
            outs = {}
            for tt in range(until + 1):
                for k in range(5):
                    r = rng.random()
                    if t == 'event-based':
                        if r > 0.6: continue
                        attrs = ['eo']
                    else:
                        attrs = ['po', 'eo'] if r < 0.6 else ['po']
                        if not compliant_outputs and r > 0.93: attrs = ['eo']      # persistent attribute not produced
                    if k >= rng.choice([1, 2, 2, 3]) and 'eo' in attrs:
                        attrs = [x for x in attrs if x != 'eo']       # loops settle
                    ot = None
                    if not monotone and rng.random() < 0.15: ot = tt + rng.randint(1, 3)
                    outs[f'{tt},{k}'] = [ot, attrs]
            b['outputs'] = outs
        beh.append(b)
    init = [[i, rng.randint(0, 2)] for i in range(n) if types[i] == 'event-based' and rng.random() < 0.7]
    case = dict(n=n, types=types, grp=grp, edges=edges, until=until, beh=beh, init=init,
                maxloop=rng.choice([100, 100, 100, 3, 2, 1]) if groups else 100)
    if asyncs:
        # agents write to their async predecessors during some steps
        for e in edges:
            if e.get('async'):
                sd = case['beh'][e['b']].setdefault('set_data', {})
                for tt in range(until):
                    if rng.random() < 0.5:
                        sd.setdefault(f'{tt},0', []).append([f"S{e['a']}", rng.choice(['i', 'ti']) if types[e['a']] == 'hybrid' else ('i' if types[e['a']] == 'time-based' else 'ti'), f"set{e['b']}@{tt}"])
    if malformed:
        i = rng.randrange(n)
        tt = rng.randint(0, max(0, until - 1))
        kind = rng.choice(['step', 'step', 'time'])
        if kind == 'step':
            val = rng.choice([tt, tt - 1, 0, -1, 'float:1.5', 'str', None, True, False, tt])
            if val == 'str': val = 'soon'
        else:
            val = rng.choice([tt - 1, -1, tt - 2])
        case['beh'][i].setdefault('bad', {})[f'{tt},0'] = [kind, val]
        case['malformed'] = [i, tt, kind, val]
    return case


STRATEGIES = ['random', 'random', 'oldest', 'newest', 'rr']


def pick_strategy(rng, case):
    r = rng.random()
    if r < 0.25:
        return f"starve:S{rng.randrange(case['n'])}"
    return rng.choice(STRATEGIES)
