#!/usr/bin/env python3
"""Fail-closed translator for scenario.parse_attrs -> Coq (Gen/ParseAttrs.v).

parse_attrs is straight-line code over a model description (a dict) and the simulator type:
  V = E                                   (also annotated)            -> let V := E in ...
  if model_desc.get('any_inputs', False): V = E1 else: V = E2         -> let V := if d_any_inputs d then E1 else E2 in ...
  if type == 'time-based': ... elif type == 'event-based': ... elif type == 'hybrid': ...   (every branch assigns the same
      variables, nothing else)                                        -> let '(V1, V2) := match ty with ... end in ...
  A, B = parse_set_triple(U, A0, B0, "...", "...", "...")             -> match parse_set_triple U A0 B0 with POk (A, B) => ... | errors
      (the generated one of Gen/InOrOutSet.v; the three strings only name the keys in the error text)
  if type == T and X != frozenset(): raise ValueError(...)            -> if (ty is T) && negb (py_eq X (Fin [])) then PTypeForbidden else ...
  return A, B, C, D                                                   -> POk (A, B, C, D)
  a string constant assigned to a variable that is only used inside `raise ValueError(...)` is skipped (error text)
Expressions (sets are `option ioset` before parse_set_triple - None = absent - and `ioset` after it):
  OutSet() -> Some (Cof []) ; frozenset() -> Some (Fin []) ; None -> None ; a variable
  wrap_set(model_desc.get(K)) -> wrap (d_K d) ; wrap_set(model_desc.get(K, E)) -> get_or (d_K d) E      (wrap_set turns the list
      found under a key into a frozenset and passes None / an already wrapped default through: Static/Attrs.v wrap, get_or)
  E1 if C else E2 with C one of  'K' in model_desc  /  type == T
The description is the record mdesc of Static/Attrs.v (the five lists and any_inputs); keys: attrs, trigger, non-trigger,
persistent, non-persistent.  Anything else makes the translator exit with status 2 (a broken tie).
Usage: py2coq_attrs.py <repo> <outdir>
"""
import ast, os, sys

KEYS = {'attrs': 'd_attrs', 'trigger': 'd_trigger', 'non-trigger': 'd_nontrigger', 'persistent': 'd_persistent', 'non-persistent': 'd_nonpersistent'}
TYPES = {'time-based': 'ATimeBased', 'event-based': 'AEventBased', 'hybrid': 'AHybrid'}


class Unsupported(Exception):
    pass


def bail(node, why=''):
    raise Unsupported(f"line {getattr(node, 'lineno', '?')}: {type(node).__name__} {why}")


def is_name(e, n): return isinstance(e, ast.Name) and e.id == n
def const_str(e): return e.value if isinstance(e, ast.Constant) and isinstance(e.value, str) else None


def desc_get(e):
    """model_desc.get(K[, default]) -> (key, default node or None)"""
    if isinstance(e, ast.Call) and isinstance(e.func, ast.Attribute) and e.func.attr == 'get' and is_name(e.func.value, 'model_desc') \
            and 1 <= len(e.args) <= 2 and not e.keywords and const_str(e.args[0]) is not None:
        return const_str(e.args[0]), (e.args[1] if len(e.args) == 2 else None)
    return None


def type_test(c):
    if isinstance(c, ast.Compare) and len(c.ops) == 1 and isinstance(c.ops[0], ast.Eq) and is_name(c.left, 'type') and const_str(c.comparators[0]) in TYPES:
        return const_str(c.comparators[0])
    return None


def match_ty(t, yes, no):
    return f"(match ty with {TYPES[t]} => {yes} | _ => {no} end)"


def oexpr(e, env):
    """expression of type option ioset"""
    if isinstance(e, ast.Constant) and e.value is None: return 'None'
    if isinstance(e, ast.Call) and is_name(e.func, 'OutSet') and not e.args and not e.keywords: return '(Some (Cof []))'
    if isinstance(e, ast.Call) and is_name(e.func, 'frozenset') and not e.args and not e.keywords: return '(Some (Fin []))'
    if isinstance(e, ast.Name):
        if env.get(e.id) == 'oset': return e.id
        bail(e, f'variable {e.id} is not an optional set here')
    if isinstance(e, ast.Call) and is_name(e.func, 'wrap_set') and len(e.args) == 1 and not e.keywords:
        g = desc_get(e.args[0])
        if g is None: bail(e, 'wrap_set of something else than model_desc.get')
        k, dflt = g
        if k not in KEYS: bail(e, 'key ' + k)
        return f'(wrap ({KEYS[k]} d))' if dflt is None else f'(get_or ({KEYS[k]} d) {oexpr(dflt, env)})'
    if isinstance(e, ast.IfExp):
        c = e.test
        if isinstance(c, ast.Compare) and len(c.ops) == 1 and isinstance(c.ops[0], ast.In) and const_str(c.left) in KEYS and is_name(c.comparators[0], 'model_desc'):
            return f"(match {KEYS[const_str(c.left)]} d with Some _ => {oexpr(e.body, env)} | None => {oexpr(e.orelse, env)} end)"
        t = type_test(c)
        if t: return match_ty(t, oexpr(e.body, env), oexpr(e.orelse, env))
        bail(c, 'condition')
    bail(e, 'set expression')


def target_name(st):
    if isinstance(st, ast.Assign) and len(st.targets) == 1 and isinstance(st.targets[0], ast.Name): return st.targets[0].id, st.value
    if isinstance(st, ast.AnnAssign) and isinstance(st.target, ast.Name) and st.value is not None: return st.target.id, st.value
    return None, None


def block(stmts, env):
    """translate a statement list to a Coq term of type pres (ioset * ioset * ioset * ioset)"""
    if not stmts: bail(ast.Pass(), 'function falls off its end')
    st, rest = stmts[0], stmts[1:]
    env = dict(env)
    # error text
    v, val = target_name(st)
    if v is not None and (const_str(val) is not None or (isinstance(val, ast.JoinedStr))):
        env[v] = 'str'; return block(rest, env)
    if v is not None:
        # tuple result of parse_set_triple is handled below (Tuple target); a plain assignment of a set expression:
        t = oexpr(val, env); env[v] = 'oset'
        return f"let {v} := {t} in\n  {block(rest, env)}"
    if isinstance(st, ast.Assign) and len(st.targets) == 1 and isinstance(st.targets[0], ast.Tuple):
        tg = st.targets[0]
        if not (len(tg.elts) == 2 and all(isinstance(x, ast.Name) for x in tg.elts)): bail(st, 'tuple target')
        c = st.value
        if not (isinstance(c, ast.Call) and is_name(c.func, 'parse_set_triple') and len(c.args) == 6 and not c.keywords
                and all(const_str(x) is not None for x in c.args[3:])): bail(st, 'call')
        u, a, b = (oexpr(x, env) for x in c.args[:3])
        A, B = tg.elts[0].id, tg.elts[1].id
        env[A] = env[B] = 'set'
        return (f"match parse_set_triple {u} {a} {b} with\n  | POk ({A}, {B}) =>\n  {block(rest, env)}\n"
                f"  | PMissing => PMissing | PNotDisjoint => PNotDisjoint | PNotUnion => PNotUnion | PTypeForbidden => PTypeForbidden end")
    if isinstance(st, ast.If):
        # (1) any_inputs
        g = desc_get(st.test)
        if g is not None:
            k, dflt = g
            if not (k == 'any_inputs' and isinstance(dflt, ast.Constant) and dflt.value is False): bail(st.test, 'condition')
            if len(st.body) != 1 or len(st.orelse) != 1: bail(st, 'branches')
            v1, e1 = target_name(st.body[0]); v2, e2 = target_name(st.orelse[0])
            if v1 is None or v1 != v2: bail(st, 'branches assign different variables')
            t = f"(if d_any_inputs d then {oexpr(e1, env)} else {oexpr(e2, env)})"; env[v1] = 'oset'
            return f"let {v1} := {t} in\n  {block(rest, env)}"
        # (2) the chain over the three types
        t0 = type_test(st.test)
        if t0 is not None and st.orelse:
            branches = {}; cur = st
            while True:
                t = type_test(cur.test)
                if t is None or t in branches: bail(cur, 'type chain')
                branches[t] = cur.body
                if len(cur.orelse) == 1 and isinstance(cur.orelse[0], ast.If): cur = cur.orelse[0]; continue
                if cur.orelse: bail(cur, 'else branch in the type chain')
                break
            if set(branches) != set(TYPES): bail(st, 'type chain does not cover the three types')
            names = None; terms = {}
            for t, body in branches.items():
                vs = []
                for s_ in body:
                    v, e = target_name(s_)
                    if v is None: bail(s_, 'statement in type chain')
                    vs.append((v, oexpr(e, env)))
                if names is None: names = [v for v, _ in vs]
                if [v for v, _ in vs] != names: bail(st, 'branches assign different variables')
                terms[t] = '(' + ', '.join(x for _, x in vs) + ')'
            for v in names: env[v] = 'oset'
            pat = "'(" + ', '.join(names) + ')' if len(names) > 1 else names[0]
            return (f"let {pat} := match ty with ATimeBased => {terms['time-based']} | AEventBased => {terms['event-based']} | AHybrid => {terms['hybrid']} end in\n"
                    f"  {block(rest, env)}")
        # (3) a type forbids a kind: if type == T and X != frozenset(): raise ValueError(...)
        c = st.test
        if isinstance(c, ast.BoolOp) and isinstance(c.op, ast.And) and len(c.values) == 2 and not st.orelse and len(st.body) == 1 \
                and isinstance(st.body[0], ast.Raise) and isinstance(st.body[0].exc, ast.Call) and is_name(st.body[0].exc.func, 'ValueError'):
            t = type_test(c.values[0]); n = c.values[1]
            if t is None or not (isinstance(n, ast.Compare) and len(n.ops) == 1 and isinstance(n.ops[0], ast.NotEq) and isinstance(n.left, ast.Name)
                                 and env.get(n.left.id) == 'set' and isinstance(n.comparators[0], ast.Call) and is_name(n.comparators[0].func, 'frozenset')
                                 and not n.comparators[0].args): bail(st, 'forbidden-kind test')
            return f"if {match_ty(t, f'negb (py_eq {n.left.id} (Fin []))', 'false')} then PTypeForbidden else\n  {block(rest, env)}"
        bail(st, 'if statement')
    if isinstance(st, ast.Return):
        if rest: bail(rest[0], 'statement after return')
        v = st.value
        if not (isinstance(v, ast.Tuple) and len(v.elts) == 4 and all(isinstance(x, ast.Name) and env.get(x.id) == 'set' for x in v.elts)): bail(st, 'return')
        return 'POk (' + ', '.join(x.id for x in v.elts) + ')'
    bail(st, 'statement')


def main():
    repo, outdir = sys.argv[1], sys.argv[2]
    tree = ast.parse(open(os.path.join(repo, 'mosaik', 'scenario.py')).read())
    fns = [n for n in tree.body if isinstance(n, ast.FunctionDef) and n.name == 'parse_attrs']
    if len(fns) != 1: raise Unsupported('function parse_attrs not found')
    fn = fns[0]
    if [a.arg for a in fn.args.args] != ['model_desc', 'type'] or fn.args.defaults or fn.args.vararg or fn.args.kwarg: bail(fn, 'signature')
    body = list(fn.body)
    if body and isinstance(body[0], ast.Expr) and isinstance(body[0].value, ast.Constant) and isinstance(body[0].value.value, str): body = body[1:]
    term = block(body, {})
    text = '\n'.join(["(* generated by harness/py2coq_attrs.py from mosaik/scenario.py (parse_attrs) -- do not edit; regenerated on every run *)",
                      "From Coq Require Import List Bool Arith.", "Import ListNotations.", "From MV Require Import Static.Attrs Gen.InOrOutSet.", "",
                      "Definition parse_attrs (d : mdesc) (ty : asimtype) : pres (ioset * ioset * ioset * ioset) :=", "  " + term + ".", ""])
    path = os.path.join(outdir, 'ParseAttrs.v')
    if not os.path.exists(path) or open(path).read() != text:
        open(path, 'w').write(text)


if __name__ == '__main__':
    try:
        main()
    except Unsupported as e:
        sys.stderr.write(f'py2coq_attrs: unsupported construct: {e}\n'); sys.exit(2)
    except SyntaxError as e:
        sys.stderr.write(f'py2coq_attrs: {e}\n'); sys.exit(2)
