#!/bin/bash
export VERIF_EVIDENCE_DIR=/verif/build/evidence-scratch
export VERIF_SEARCH_BUDGET=${VERIF_SEARCH_BUDGET:-45}
# dev aid: which quick checks raise an alarm for which seeded change. usage: matrix.sh [seed ...]   (writes /verif/build/matrix.tsv)
cd /verif
seeds=${@:-$(ls seeded)}
props="C01 C02 C03 C04 C05 C06 C07 C08 C09 C10 C11 C12 C13 C14 C15 C16 C17 C18"
out=build/matrix.tsv; : > $out
for s in $seeds; do
  git -C /repo apply /verif/seeded/$s/patch.diff || { echo "$s apply failed"; continue; }
  ./setup.sh >/dev/null 2>&1
  mkdir -p build/mx; rm -f build/mx/*
  echo $props | tr ' ' '\n' | xargs -P 9 -I{} sh -c './check {} > build/mx/{}.out 2>&1; echo $? > build/mx/{}.rc'
  line="$s"
  for p in $props; do
    rc=$(cat build/mx/$p.rc)
    if [ "$rc" = "0" ]; then c="."; elif grep -q "no-failing-input-found" build/mx/$p.out; then c="n"; else c="V"; fi
    line="$line\t$c"
  done
  echo -e "$line" | tee -a $out
  git -C /repo checkout -- .
done
./setup.sh >/dev/null 2>&1
