#!/bin/bash
# offline build of the framework: translator -> coq (full .vo build) -> extraction -> OCaml driver
cd "$(dirname "$0")"
export PYTHONPATH="${VERIF_REPO:-/repo}:$(pwd)" PYTHONHASHSEED=0 PYTHONDONTWRITEBYTECODE=1
exec /venv/bin/python -c "
from harness import common
i = common.build()
print('translator_ok', i.translator_ok, i.translator_msg)
print('make rc', i.make_rc, 'failed', i.failed_files)
print('driver_ok', i.driver_ok, i.driver_msg[-500:])
print('wall', round(i.wall,1))
import sys; sys.exit(0 if (i.translator_ok and i.make_rc == 0 and i.driver_ok) else 1)
"
