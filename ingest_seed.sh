#!/bin/bash
# dev aid: confirm a sub-agent's seeded change in the scratch worktree /tmp/wt/verify and store it under seeded/<name>.
# usage: ingest_seed.sh <agent-worktree> <name> <Cxx> "<needs to manifest>"
wt=$1; name=$2; pid=$3; needs=$4
v=/tmp/wt/verify2
d=/verif/seeded/$name
mkdir -p $d
cp $wt/_out/patch.diff $wt/_out/demo.py $d/ 2>/dev/null
[ -f $wt/_out/notes.md ] && cp $wt/_out/notes.md $d/
git -C $v checkout -q -- . ; git -C $v clean -fdq
git -C $v apply $d/patch.diff || { echo "apply failed"; exit 2; }
t=$(cd $v && PYTHONPATH=$v timeout 900 /venv/bin/python -m pytest -q -p no:cacheprovider --timeout=900 2>&1 | tail -1)
(cd $v && PYTHONPATH=$v timeout 300 /venv/bin/python $d/demo.py >/dev/null 2>&1); w=$?
git -C $v checkout -q -- . ; git -C $v clean -fdq
(cd $v && PYTHONPATH=$v timeout 300 /venv/bin/python $d/demo.py >/dev/null 2>&1); wo=$?
res="$name | tests: $t | demo with change: exit $w | without: exit $wo"
echo "$res"
python3 - "$d" "$name" "$pid" "$needs" "$res" <<'EOF'
import json, sys
d, name, pid, needs, res = sys.argv[1:]
json.dump({"id": name, "breaks_property": pid, "needs_to_manifest": needs,
 "origin": "written by a sub-agent (second round) that was given only the property text and a scratch git worktree of /repo (nothing from /verif)",
 "confirmed": {"where": "scratch worktree /tmp/wt/verify of /repo HEAD (removed afterwards)",
  "ran": ["git apply patch.diff", "PYTHONPATH=<worktree> /venv/bin/python -m pytest -q -p no:cacheprovider --timeout=900",
          "PYTHONPATH=<worktree> /venv/bin/python demo.py (with the change)", "git checkout -- . ; same demo (without the change)"],
  "result": res}}, open(d + '/meta.json', 'w'), indent=1)
EOF
